//! Native dump of STANDARD.try_to_amino over every IUPAC codon of length 0..=5
//! (all 16^n symbol combinations), each presented at three slice offsets of a
//! longer sequence. One line per codon: "<len> <nibbles hex> <result>" where
//! result is the amino letter, "?" (AmbiguousTranslation) or "!" (InvalidCodon);
//! a line starting with "MISMATCH" is printed if the offsets disagree.
use bio_seq::prelude::*;
use bio_seq::translation::{PartialTranslationTable, TranslationError, STANDARD};

fn res(c: &SeqSlice<Iupac>) -> String {
    match STANDARD.try_to_amino(c) {
        Ok(a) => a.to_char().to_string(),
        Err(TranslationError::AmbiguousTranslation(s)) => {
            assert!(&s == c, "error payload is not the codon");
            "?".to_string()
        }
        Err(TranslationError::InvalidCodon(s)) => {
            assert!(&s == c, "error payload is not the codon");
            "!".to_string()
        }
        Err(_) => "E".to_string(),
    }
}

fn main() {
    let maxlen: usize = std::env::args().nth(1).map(|s| s.parse().unwrap()).unwrap_or(5);
    let out = std::io::stdout();
    use std::io::Write;
    let mut out = std::io::BufWriter::new(out.lock());
    for len in 0..=maxlen {
        let total = 16usize.pow(len as u32);
        for v in 0..total {
            let mut codon: Vec<Iupac> = Vec::new();
            for i in 0..len {
                codon.push(Iupac::try_from_bits(((v >> (4 * i)) & 15) as u8).unwrap());
            }
            let mut results = Vec::new();
            for off in [0usize, 1, 15] {
                let mut s: Seq<Iupac> = Seq::new();
                for _ in 0..off {
                    s.push(Iupac::N);
                }
                s.extend(codon.iter().copied());
                s.push(Iupac::A);
                results.push(res(&s[off..off + len]));
            }
            if results[0] != results[1] || results[0] != results[2] {
                writeln!(out, "MISMATCH {len} {v:x} {:?}", results).unwrap();
            }
            writeln!(out, "{len} {v:x} {}", results[0]).unwrap();
        }
    }
    // reverse translation, for the record (not part of the solver claim)
    for a in Amino::items() {
        let r = STANDARD.try_to_codon(a);
        match r {
            Ok(c) => writeln!(out, "R {} {}", a.to_char(), c).unwrap(),
            Err(_) => writeln!(out, "R {} ?", a.to_char()).unwrap(),
        }
    }
}
