//! Native replay: `replay <harness> <hex>,<hex>,...` runs one harness body on
//! concrete inputs (the byte vectors printed by Kani's concrete playback).
//! exit 0: ran to the end without panic; 10: panicked (message on stdout);
//! 11: an assumption of the harness is false for these inputs (void replay);
//! 12: harness unknown; 13: harness asked for more inputs than were supplied.
use std::panic;

fn unhex(s: &str) -> Vec<u8> {
    (0..s.len() / 2)
        .map(|i| u8::from_str_radix(&s[2 * i..2 * i + 2], 16).unwrap())
        .collect()
}

fn main() {
    let args: Vec<String> = std::env::args().collect();
    if args.len() == 2 && args[1] == "--list" {
        for t in bsv::tables() {
            for (n, _) in t.iter() {
                println!("{n}");
            }
        }
        return;
    }
    let name = &args[1];
    let input: Vec<Vec<u8>> = if args.len() > 2 && !args[2].is_empty() {
        args[2].split(',').map(unhex).collect()
    } else {
        vec![]
    };
    let mut f: Option<fn()> = None;
    for t in bsv::tables() {
        for (n, h) in t.iter() {
            if n == name {
                f = Some(*h);
            }
        }
    }
    let Some(f) = f else {
        println!("REPLAY unknown harness {name}");
        std::process::exit(12);
    };
    bsv::vx::set_input(input);
    panic::set_hook(Box::new(|_| {}));
    let r = panic::catch_unwind(f);
    match r {
        Ok(()) => {
            if bsv::vx::input_exhausted() {
                println!("REPLAY input-exhausted");
                std::process::exit(13);
            }
            println!("REPLAY ok");
        }
        Err(e) => {
            if e.downcast_ref::<bsv::vx::AssumeFailed>().is_some() {
                println!("REPLAY assume-failed");
                std::process::exit(11);
            }
            let msg = if let Some(s) = e.downcast_ref::<&str>() {
                s.to_string()
            } else if let Some(s) = e.downcast_ref::<String>() {
                s.clone()
            } else {
                "<non-string panic>".to_string()
            };
            println!("REPLAY panic: {msg}");
            std::process::exit(10);
        }
    }
}
