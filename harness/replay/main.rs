//! Native replay: `replay <harness> <hex>,<hex>,...` runs one harness body on
//! concrete inputs (the byte vectors printed by Kani's concrete playback).
//! exit 0: ran to the end without panic; 10: panicked (message on stdout);
//! 11: an assumption of the harness is false for these inputs (void replay);
//! 12: harness unknown; 13: harness asked for more inputs than were supplied.
use std::panic;

fn unhex(s: &str) -> Vec<u8> {
    (0..s.len() / 2)
        .map(|i| u8::from_str_radix(&s[2 * i..2 * i + 2], 16).unwrap())
        .collect()
}

fn main() {
    let args: Vec<String> = std::env::args().collect();
    if args.len() == 2 && args[1] == "--list" {
        for t in bsv::tables() {
            for (n, _) in t.iter() {
                println!("{n}");
            }
        }
        return;
    }
    if args.len() >= 4 && args[1] == "--fuzz" {
        // native random execution of every harness body (validation of harness oracles and of
        // the dependency model: run once against stock bitvec and once against the vendored one)
        let n: u64 = args[2].parse().unwrap();
        let mut seed: u64 = args[3].parse().unwrap();
        let filter = args.get(4).cloned().unwrap_or_default();
        let mut next = move || {
            seed ^= seed << 13;
            seed ^= seed >> 7;
            seed ^= seed << 17;
            seed
        };
        panic::set_hook(Box::new(|_| {}));
        let mut total_panics = 0u64;
        for t in bsv::tables() {
            for (hname, h) in t.iter() {
                if !hname.contains(filter.as_str()) {
                    continue;
                }
                let xp = hname.ends_with("_xp");
                let (mut ok, mut void, mut bad) = (0u64, 0u64, 0u64);
                let mut first_bad = String::new();
                for _ in 0..n {
                    let mut input: Vec<Vec<u8>> = Vec::new();
                    for _ in 0..24 {
                        let r = next();
                        let v: u128 = match r % 8 {
                            0 | 1 | 2 => (next() % 70) as u128,
                            3 => (next() % 6) as u128,
                            4 => (next() % 300) as u128,
                            5 => next() as u128,
                            _ => ((next() as u128) << 64) | next() as u128,
                        };
                        input.push(v.to_le_bytes().to_vec());
                    }
                    let shown = input.clone();
                    bsv::vx::set_input(input);
                    let f = *h;
                    match panic::catch_unwind(f) {
                        Ok(()) => ok += 1,
                        Err(e) => {
                            if e.downcast_ref::<bsv::vx::AssumeFailed>().is_some() {
                                void += 1;
                            } else {
                                let msg = if let Some(s) = e.downcast_ref::<&str>() { s.to_string() } else if let Some(s) = e.downcast_ref::<String>() { s.clone() } else { String::new() };
                                let expected = xp && !msg.contains("MARKER");
                                if expected {
                                    ok += 1;
                                } else {
                                    bad += 1;
                                    if first_bad.is_empty() {
                                        first_bad = format!("{msg} input={:?}", shown.iter().take(8).map(|v| u128::from_le_bytes(v[..16].try_into().unwrap())).collect::<Vec<_>>());
                                    }
                                }
                            }
                        }
                    }
                }
                total_panics += bad;
                println!("FUZZ {hname} ok={ok} void={void} bad={bad} {first_bad}");
            }
        }
        std::process::exit(if total_panics > 0 { 10 } else { 0 });
    }
    let name = &args[1];
    let input: Vec<Vec<u8>> = if args.len() > 2 && !args[2].is_empty() {
        args[2].split(',').map(unhex).collect()
    } else {
        vec![]
    };
    let mut f: Option<fn()> = None;
    for t in bsv::tables() {
        for (n, h) in t.iter() {
            if n == name {
                f = Some(*h);
            }
        }
    }
    let Some(f) = f else {
        println!("REPLAY unknown harness {name}");
        std::process::exit(12);
    };
    bsv::vx::set_input(input);
    panic::set_hook(Box::new(|_| {}));
    let r = panic::catch_unwind(f);
    match r {
        Ok(()) => {
            if bsv::vx::input_exhausted() {
                println!("REPLAY input-exhausted");
                std::process::exit(13);
            }
            println!("REPLAY ok");
        }
        Err(e) => {
            if e.downcast_ref::<bsv::vx::AssumeFailed>().is_some() {
                println!("REPLAY assume-failed");
                std::process::exit(11);
            }
            let msg = if let Some(s) = e.downcast_ref::<&str>() {
                s.to_string()
            } else if let Some(s) = e.downcast_ref::<String>() {
                s.clone()
            } else {
                "<non-string panic>".to_string()
            };
            println!("REPLAY panic: {msg}");
            std::process::exit(10);
        }
    }
}
