//! C09 — k-mer operations agree with the same operation on the symbol list,
//! and results stay in canonical form (integer < 2^(K*BITS)).
use crate::oracle::{self, isym, mask128, rev_syms, rotl_syms};
use crate::pre::*;
use crate::vx::*;
use crate::{harnesses, reach};
use bio_seq::codec::{masked, text};
use bio_seq::prelude::*;

macro_rules! paste_any {
    (usize) => { any_usize() };
    (u64) => { any_u64() };
    (u128) => { any_u128() };
}

#[inline(always)]
fn any_canon(bits: usize) -> usize {
    let v = any_usize();
    assume(v as u128 <= mask128(bits));
    v
}

#[inline(always)]
pub fn rev<A: Codec, const K: usize>()
where
    Kmer<A, K, usize>: Reverse<Owned = Kmer<A, K, usize>>,
{
    let b = A::BITS as usize;
    let v = any_canon(K * b);
    let k = kmer::<A, K>(v);
    let r = k.to_rev();
    assert!(r.bs as u128 == rev_syms(v as u128, b, K), "C09.rev.symbols_reversed");
    assert!(r.bs as u128 <= mask128(K * b), "C09.rev.canonical_form");
    assert!(r.to_rev() == k, "C09.rev.involution");
    let mut m = k;
    m.rev();
    assert!(m == r, "C09.rev.in_place_eq_copying");
    reach!("end");
}

#[inline(always)]
fn comp_int(v: u128, k: usize) -> u128 {
    let mut r = 0u128;
    let mut i = 0;
    while i < k {
        r |= (oracle::dna_comp(isym(v, 2, i)) as u128) << (2 * i);
        i += 1;
    }
    r
}

#[inline(always)]
pub fn comp<const K: usize>() {
    let v = any_canon(K * 2);
    let k = kmer::<Dna, K>(v);
    let c = k.to_comp();
    assert!(c.bs as u128 == comp_int(v as u128, K), "C09.comp.symbolwise_complement");
    assert!(c.bs as u128 <= mask128(K * 2), "C09.comp.canonical_form");
    assert!(c.to_comp() == k, "C09.comp.involution");
    let mut m = k;
    m.comp();
    assert!(m == c, "C09.comp.in_place_eq_copying");
    reach!("end");
}

#[inline(always)]
pub fn revcomp<const K: usize>() {
    let v = any_canon(K * 2);
    let k = kmer::<Dna, K>(v);
    let rc = k.to_revcomp();
    let want = rev_syms(comp_int(v as u128, K), 2, K);
    assert!(rc.bs as u128 == want, "C09.revcomp.is_reverse_of_complement");
    assert!(rc == k.to_comp().to_rev(), "C09.revcomp.eq_comp_then_rev");
    assert!(rc == k.to_rev().to_comp(), "C09.revcomp.eq_rev_then_comp");
    assert!(rc.bs as u128 <= mask128(K * 2), "C09.revcomp.canonical_form");
    assert!(rc.to_revcomp() == k, "C09.revcomp.involution");
    // canonical k-mer is the same for k and revcomp(k)
    let c1 = core::cmp::min(k, rc);
    let c2 = core::cmp::min(rc, rc.to_revcomp());
    assert!(c1 == c2, "C09.revcomp.canonical_min_symmetric");
    reach!("end");
}

macro_rules! rotl_body {
    ($mk:ident, $int:tt, $A:ty, $K:expr, $n:expr) => {{
        let b = <$A as Codec>::BITS as usize;
        let v: $int = paste_any!($int);
        assume(v as u128 <= mask128($K * b));
        let k = $mk::<$A, { $K }>(v);
        let n: u32 = $n;
        let l = k.rotated_left(n);
        let nn = (n as usize) % $K;
        assert!(l.bs as u128 == rotl_syms(v as u128, b, $K, nn), "C09.rot.left_symbols");
        assert!(l.bs as u128 <= mask128($K * b), "C09.rot.canonical_form_left");
        reach!("end");
    }};
}
macro_rules! rotr_body {
    ($mk:ident, $int:tt, $A:ty, $K:expr, $n:expr) => {{
        let b = <$A as Codec>::BITS as usize;
        let v: $int = paste_any!($int);
        assume(v as u128 <= mask128($K * b));
        let k = $mk::<$A, { $K }>(v);
        let n: u32 = $n;
        let r = k.rotated_right(n);
        let nn = (n as usize) % $K;
        assert!(r.bs as u128 == rotl_syms(v as u128, b, $K, ($K - nn) % $K), "C09.rot.right_symbols");
        assert!(r.bs as u128 <= mask128($K * b), "C09.rot.canonical_form_right");
        reach!("end");
    }};
}
macro_rules! pushr_body {
    ($mk:ident, $int:tt, $A:ty, $K:expr) => {{
        let b = <$A as Codec>::BITS as usize;
        let v: $int = paste_any!($int);
        assume(v as u128 <= mask128($K * b));
        let k = $mk::<$A, { $K }>(v);
        let s = <$A as Codec>::try_from_bits(any_u8());
        assume(s.is_some());
        let s = s.unwrap();
        let code = s.to_bits() as u128;
        let pr = k.pushr(s);
        let want_r = ((v as u128) >> b) | (code << (($K - 1) * b));
        assert!(pr.bs as u128 == want_r, "C09.push.right_symbols");
        assert!(pr.bs as u128 <= mask128($K * b), "C09.push.canonical_form_right");
        reach!("end");
    }};
}
macro_rules! pushl_body {
    ($mk:ident, $int:tt, $A:ty, $K:expr) => {{
        let b = <$A as Codec>::BITS as usize;
        let v: $int = paste_any!($int);
        assume(v as u128 <= mask128($K * b));
        let k = $mk::<$A, { $K }>(v);
        let s = <$A as Codec>::try_from_bits(any_u8());
        assume(s.is_some());
        let s = s.unwrap();
        let code = s.to_bits() as u128;
        let pl = k.pushl(s);
        let want_l = (((v as u128) << b) & mask128($K * b)) | code;
        assert!(pl.bs as u128 == want_l, "C09.push.left_symbols");
        assert!(pl.bs as u128 <= mask128($K * b), "C09.push.canonical_form_left");
        reach!("end");
    }};
}
macro_rules! rot_body_unused {
    ($mk:ident, $int:ty, $A:ty, $K:expr, $n:expr) => {{
        let b = <$A as Codec>::BITS as usize;
        let v: $int = {
            let v = paste_any!($int);
            assume(v as u128 <= mask128($K * b));
            v
        };
        let k = $mk::<$A, { $K }>(v);
        let n: u32 = $n;
        let l = k.rotated_left(n);
        let r = k.rotated_right(n);
        let nn = (n as usize) % $K;
        assert!(l.bs as u128 == rotl_syms(v as u128, b, $K, nn), "C09.rot.left_symbols");
        assert!(r.bs as u128 == rotl_syms(v as u128, b, $K, ($K - nn) % $K), "C09.rot.right_symbols");
        assert!(l.bs as u128 <= mask128($K * b), "C09.rot.canonical_form_left");
        assert!(r.bs as u128 <= mask128($K * b), "C09.rot.canonical_form_right");
        reach!("end");
    }};
}


macro_rules! push_body {
    ($mk:ident, $int:ty, $A:ty, $K:expr) => {{
        let b = <$A as Codec>::BITS as usize;
        let v: $int = {
            let v = paste_any!($int);
            assume(v as u128 <= mask128($K * b));
            v
        };
        let k = $mk::<$A, { $K }>(v);
        let sb = any_u8();
        let s = <$A as Codec>::try_from_bits(sb);
        assume(s.is_some());
        let s = s.unwrap();
        let code = s.to_bits() as u128;
        let pr = k.pushr(s);
        let pl = k.pushl(s);
        // pushr: drop first symbol, append s at the end
        let want_r = ((v as u128) >> b) | (code << (($K - 1) * b));
        // pushl: drop last symbol, put s in front
        let want_l = (((v as u128) << b) & mask128($K * b)) | code;
        assert!(pr.bs as u128 == want_r, "C09.push.right_symbols");
        assert!(pl.bs as u128 == want_l, "C09.push.left_symbols");
        assert!(pr.bs as u128 <= mask128($K * b), "C09.push.canonical_form_right");
        assert!(pl.bs as u128 <= mask128($K * b), "C09.push.canonical_form_left");
        reach!("end");
    }};
}

harnesses! {
    // reverse: 2-bit DNA
    fn c09_q_rev_dna_k1 [34] { rev::<Dna, 1>(); }
    fn c09_q_rev_dna_k7 [34] { rev::<Dna, 7>(); }
    fn c09_q_rev_dna_k31 [34] { rev::<Dna, 31>(); }
    fn c09_q_rev_dna_k32 [34] { rev::<Dna, 32>(); }
    fn c09_t_rev_dna_k2 [34] { rev::<Dna, 2>(); }
    fn c09_t_rev_dna_k4 [34] { rev::<Dna, 4>(); }
    fn c09_t_rev_dna_k5 [34] { rev::<Dna, 5>(); }
    fn c09_t_rev_dna_k16 [34] { rev::<Dna, 16>(); }
    fn c09_t_rev_dna_k17 [34] { rev::<Dna, 17>(); }
    // reverse: other widths
    fn c09_q_rev_iupac_k4 [34] { rev::<Iupac, 4>(); }
    fn c09_q_rev_iupac_k16 [34] { rev::<Iupac, 16>(); }
    fn c09_q_rev_amino_k3 [34] { rev::<Amino, 3>(); }
    fn c09_q_rev_amino_k10 [34] { rev::<Amino, 10>(); }
    fn c09_t_rev_iupac_k1 [34] { rev::<Iupac, 1>(); }
    fn c09_t_rev_iupac_k15 [34] { rev::<Iupac, 15>(); }
    fn c09_t_rev_text_k2 [34] { rev::<text::Dna, 2>(); }
    fn c09_t_rev_text_k8 [34] { rev::<text::Dna, 8>(); }
    fn c09_t_rev_miupac_k12 [34] { rev::<masked::Iupac, 12>(); }
    fn c09_t_rev_mdna_k16 [34] { rev::<masked::Dna, 16>(); }
    // complement / reverse complement (2-bit DNA only)
    fn c09_q_comp_dna_k1 [34] { comp::<1>(); }
    fn c09_q_comp_dna_k7 [34] { comp::<7>(); }
    fn c09_q_comp_dna_k31 [34] { comp::<31>(); }
    fn c09_q_comp_dna_k32 [34] { comp::<32>(); }
    fn c09_t_comp_dna_k16 [34] { comp::<16>(); }
    fn c09_q_revcomp_dna_k1 [34] { revcomp::<1>(); }
    fn c09_q_revcomp_dna_k7 [34] { revcomp::<7>(); }
    fn c09_q_revcomp_dna_k31 [34] { revcomp::<31>(); }
    fn c09_q_revcomp_dna_k32 [34] { revcomp::<32>(); }
    fn c09_t_revcomp_dna_k4 [34] { revcomp::<4>(); }
    fn c09_t_revcomp_dna_k16 [34] { revcomp::<16>(); }
    fn c09_t_revcomp_dna_k21 [34] { revcomp::<21>(); }
    // every K that fits (thorough)
    fn c09_t_comp_dna_k2 [34] { comp::<2>(); }
    fn c09_t_revcomp_dna_k2 [34] { revcomp::<2>(); }
    fn c09_t_rev_dna_k3 [34] { rev::<Dna, 3>(); }
    fn c09_t_comp_dna_k3 [34] { comp::<3>(); }
    fn c09_t_revcomp_dna_k3 [34] { revcomp::<3>(); }
    fn c09_t_comp_dna_k4 [34] { comp::<4>(); }
    fn c09_t_comp_dna_k5 [34] { comp::<5>(); }
    fn c09_t_revcomp_dna_k5 [34] { revcomp::<5>(); }
    fn c09_t_rev_dna_k6 [34] { rev::<Dna, 6>(); }
    fn c09_t_comp_dna_k6 [34] { comp::<6>(); }
    fn c09_t_revcomp_dna_k6 [34] { revcomp::<6>(); }
    fn c09_t_rev_dna_k8 [34] { rev::<Dna, 8>(); }
    fn c09_t_comp_dna_k8 [34] { comp::<8>(); }
    fn c09_t_revcomp_dna_k8 [34] { revcomp::<8>(); }
    fn c09_t_rev_dna_k9 [34] { rev::<Dna, 9>(); }
    fn c09_t_comp_dna_k9 [34] { comp::<9>(); }
    fn c09_t_revcomp_dna_k9 [34] { revcomp::<9>(); }
    fn c09_t_rev_dna_k10 [34] { rev::<Dna, 10>(); }
    fn c09_t_comp_dna_k10 [34] { comp::<10>(); }
    fn c09_t_revcomp_dna_k10 [34] { revcomp::<10>(); }
    fn c09_t_rev_dna_k11 [34] { rev::<Dna, 11>(); }
    fn c09_t_comp_dna_k11 [34] { comp::<11>(); }
    fn c09_t_revcomp_dna_k11 [34] { revcomp::<11>(); }
    fn c09_t_rev_dna_k12 [34] { rev::<Dna, 12>(); }
    fn c09_t_comp_dna_k12 [34] { comp::<12>(); }
    fn c09_t_revcomp_dna_k12 [34] { revcomp::<12>(); }
    fn c09_t_rev_dna_k13 [34] { rev::<Dna, 13>(); }
    fn c09_t_comp_dna_k13 [34] { comp::<13>(); }
    fn c09_t_revcomp_dna_k13 [34] { revcomp::<13>(); }
    fn c09_t_rev_dna_k14 [34] { rev::<Dna, 14>(); }
    fn c09_t_comp_dna_k14 [34] { comp::<14>(); }
    fn c09_t_revcomp_dna_k14 [34] { revcomp::<14>(); }
    fn c09_t_rev_dna_k15 [34] { rev::<Dna, 15>(); }
    fn c09_t_comp_dna_k15 [34] { comp::<15>(); }
    fn c09_t_revcomp_dna_k15 [34] { revcomp::<15>(); }
    fn c09_t_comp_dna_k17 [34] { comp::<17>(); }
    fn c09_t_revcomp_dna_k17 [34] { revcomp::<17>(); }
    fn c09_t_rev_dna_k18 [34] { rev::<Dna, 18>(); }
    fn c09_t_comp_dna_k18 [34] { comp::<18>(); }
    fn c09_t_revcomp_dna_k18 [34] { revcomp::<18>(); }
    fn c09_t_rev_dna_k19 [34] { rev::<Dna, 19>(); }
    fn c09_t_comp_dna_k19 [34] { comp::<19>(); }
    fn c09_t_revcomp_dna_k19 [34] { revcomp::<19>(); }
    fn c09_t_rev_dna_k20 [34] { rev::<Dna, 20>(); }
    fn c09_t_comp_dna_k20 [34] { comp::<20>(); }
    fn c09_t_revcomp_dna_k20 [34] { revcomp::<20>(); }
    fn c09_t_rev_dna_k21 [34] { rev::<Dna, 21>(); }
    fn c09_t_comp_dna_k21 [34] { comp::<21>(); }
    fn c09_t_rev_dna_k22 [34] { rev::<Dna, 22>(); }
    fn c09_t_comp_dna_k22 [34] { comp::<22>(); }
    fn c09_t_revcomp_dna_k22 [34] { revcomp::<22>(); }
    fn c09_t_rev_dna_k23 [34] { rev::<Dna, 23>(); }
    fn c09_t_comp_dna_k23 [34] { comp::<23>(); }
    fn c09_t_revcomp_dna_k23 [34] { revcomp::<23>(); }
    fn c09_t_rev_dna_k24 [34] { rev::<Dna, 24>(); }
    fn c09_t_comp_dna_k24 [34] { comp::<24>(); }
    fn c09_t_revcomp_dna_k24 [34] { revcomp::<24>(); }
    fn c09_t_rev_dna_k25 [34] { rev::<Dna, 25>(); }
    fn c09_t_comp_dna_k25 [34] { comp::<25>(); }
    fn c09_t_revcomp_dna_k25 [34] { revcomp::<25>(); }
    fn c09_t_rev_dna_k26 [34] { rev::<Dna, 26>(); }
    fn c09_t_comp_dna_k26 [34] { comp::<26>(); }
    fn c09_t_revcomp_dna_k26 [34] { revcomp::<26>(); }
    fn c09_t_rev_dna_k27 [34] { rev::<Dna, 27>(); }
    fn c09_t_comp_dna_k27 [34] { comp::<27>(); }
    fn c09_t_revcomp_dna_k27 [34] { revcomp::<27>(); }
    fn c09_t_rev_dna_k28 [34] { rev::<Dna, 28>(); }
    fn c09_t_comp_dna_k28 [34] { comp::<28>(); }
    fn c09_t_revcomp_dna_k28 [34] { revcomp::<28>(); }
    fn c09_t_rev_dna_k29 [34] { rev::<Dna, 29>(); }
    fn c09_t_comp_dna_k29 [34] { comp::<29>(); }
    fn c09_t_revcomp_dna_k29 [34] { revcomp::<29>(); }
    fn c09_t_rev_dna_k30 [34] { rev::<Dna, 30>(); }
    fn c09_t_comp_dna_k30 [34] { comp::<30>(); }
    fn c09_t_revcomp_dna_k30 [34] { revcomp::<30>(); }
    fn c09_t_rev_iupac_k2 [34] { rev::<Iupac, 2>(); }
    fn c09_t_rev_iupac_k3 [34] { rev::<Iupac, 3>(); }
    fn c09_t_rev_iupac_k5 [34] { rev::<Iupac, 5>(); }
    fn c09_t_rev_iupac_k6 [34] { rev::<Iupac, 6>(); }
    fn c09_t_rev_iupac_k7 [34] { rev::<Iupac, 7>(); }
    fn c09_t_rev_iupac_k8 [34] { rev::<Iupac, 8>(); }
    fn c09_t_rev_iupac_k9 [34] { rev::<Iupac, 9>(); }
    fn c09_t_rev_iupac_k10 [34] { rev::<Iupac, 10>(); }
    fn c09_t_rev_iupac_k11 [34] { rev::<Iupac, 11>(); }
    fn c09_t_rev_iupac_k12 [34] { rev::<Iupac, 12>(); }
    fn c09_t_rev_iupac_k13 [34] { rev::<Iupac, 13>(); }
    fn c09_t_rev_iupac_k14 [34] { rev::<Iupac, 14>(); }
    fn c09_t_rev_amino_k1 [34] { rev::<Amino, 1>(); }
    fn c09_t_rev_amino_k2 [34] { rev::<Amino, 2>(); }
    fn c09_t_rev_amino_k4 [34] { rev::<Amino, 4>(); }
    fn c09_t_rev_amino_k5 [34] { rev::<Amino, 5>(); }
    fn c09_t_rev_amino_k6 [34] { rev::<Amino, 6>(); }
    fn c09_t_rev_amino_k7 [34] { rev::<Amino, 7>(); }
    fn c09_t_rev_amino_k8 [34] { rev::<Amino, 8>(); }
    fn c09_t_rev_amino_k9 [34] { rev::<Amino, 9>(); }
    // rotate / push (bit-slice round trip: integer -> BitArray -> rotate/store -> integer)
    fn c09_q_rotl_dna_k5_n0 [10] { rotl_body!(kmer, usize, Dna, 5, 0) }
    fn c09_q_rotr_dna_k5_n0 [10] { rotr_body!(kmer, usize, Dna, 5, 0) }
    fn c09_q_rotl_dna_k5_n1 [10] { rotl_body!(kmer, usize, Dna, 5, 1) }
    fn c09_q_rotr_dna_k5_n1 [10] { rotr_body!(kmer, usize, Dna, 5, 1) }
    fn c09_q_rotl_dna_k5_n4 [10] { rotl_body!(kmer, usize, Dna, 5, 4) }
    fn c09_q_rotr_dna_k5_n4 [10] { rotr_body!(kmer, usize, Dna, 5, 4) }
    fn c09_q_rotl_dna_k5_n5 [10] { rotl_body!(kmer, usize, Dna, 5, 5) }
    fn c09_q_rotr_dna_k5_n5 [10] { rotr_body!(kmer, usize, Dna, 5, 5) }
    fn c09_q_rotl_dna_k5_n6 [10] { rotl_body!(kmer, usize, Dna, 5, 6) }
    fn c09_q_rotr_dna_k5_n6 [10] { rotr_body!(kmer, usize, Dna, 5, 6) }
    fn c09_q_rotl_dna_k5_n10 [10] { rotl_body!(kmer, usize, Dna, 5, 10) }
    fn c09_q_rotr_dna_k5_n10 [10] { rotr_body!(kmer, usize, Dna, 5, 10) }
    fn c09_q_rotl_dna_k5_n65537 [10] { rotl_body!(kmer, usize, Dna, 5, 65537) }
    fn c09_q_rotr_dna_k5_n65537 [10] { rotr_body!(kmer, usize, Dna, 5, 65537) }
    fn c09_q_rotl_dna_k5_nmax [10] { rotl_body!(kmer, usize, Dna, 5, u32::MAX) }
    fn c09_q_rotr_dna_k5_nmax [10] { rotr_body!(kmer, usize, Dna, 5, u32::MAX) }
    fn c09_q_pushl_dna_k5 [10] { pushl_body!(kmer, usize, Dna, 5) }
    fn c09_q_pushr_dna_k5 [10] { pushr_body!(kmer, usize, Dna, 5) }
    fn c09_q_rotl_dna_k32_n1 [10] { rotl_body!(kmer, usize, Dna, 32, 1) }
    fn c09_q_rotr_dna_k32_n33 [10] { rotr_body!(kmer, usize, Dna, 32, 33) }
    fn c09_q_pushl_dna_k32 [10] { pushl_body!(kmer, usize, Dna, 32) }
    fn c09_q_pushr_dna_k32 [10] { pushr_body!(kmer, usize, Dna, 32) }
    fn c09_q_pushr_dna64_k32 [10] { pushr_body!(kmer64, u64, Dna, 32) }
    fn c09_q_rotl_dna128_k33_n1 [10] { rotl_body!(kmer128, u128, Dna, 33, 1) }
    fn c09_q_pushl_dna128_k33 [10] { pushl_body!(kmer128, u128, Dna, 33) }
    fn c09_q_pushr_dna128_k64 [10] { pushr_body!(kmer128, u128, Dna, 64) }
    fn c09_q_rotr_iupac_k16_n1 [10] { rotr_body!(kmer, usize, Iupac, 16, 1) }
    fn c09_q_pushr_iupac_k16 [10] { pushr_body!(kmer, usize, Iupac, 16) }
    // u128 storage, six-bit symbols: the last symbol of an 11-mer (and the 11th of a 21-mer) straddles bit 64
    fn c09_q_pushr_amino128_k11 [10] { pushr_body!(kmer128, u128, Amino, 11) }
    fn c09_q_pushl_amino128_k11 [10] { pushl_body!(kmer128, u128, Amino, 11) }
    fn c09_q_pushr_amino128_k21 [10] { pushr_body!(kmer128, u128, Amino, 21) }
    fn c09_q_rotl_amino_k10_n9 [10] { rotl_body!(kmer, usize, Amino, 10, 9) }
    fn c09_q_pushl_amino_k10 [10] { pushl_body!(kmer, usize, Amino, 10) }
    fn c09_t_rotl_dna_k32_n0 [10] { rotl_body!(kmer, usize, Dna, 32, 0) }
    fn c09_t_rotl_dna_k32_n31 [10] { rotl_body!(kmer, usize, Dna, 32, 31) }
    fn c09_t_rotl_dna_k32_n32 [10] { rotl_body!(kmer, usize, Dna, 32, 32) }
    fn c09_t_rotl_dna_k32_n64 [10] { rotl_body!(kmer, usize, Dna, 32, 64) }
    fn c09_t_rotl_dna_k32_nmax [10] { rotl_body!(kmer, usize, Dna, 32, u32::MAX) }
    fn c09_t_rotr_dna_k32_n1 [10] { rotr_body!(kmer, usize, Dna, 32, 1) }
    fn c09_t_rotr_dna_k32_n31 [10] { rotr_body!(kmer, usize, Dna, 32, 31) }
    fn c09_t_rotl_dna64_k32_n1 [10] { rotl_body!(kmer64, u64, Dna, 32, 1) }
    fn c09_t_rotr_dna64_k32_n31 [10] { rotr_body!(kmer64, u64, Dna, 32, 31) }
    fn c09_t_pushl_dna64_k32 [10] { pushl_body!(kmer64, u64, Dna, 32) }
    fn c09_t_rotr_dna128_k33_n1 [10] { rotr_body!(kmer128, u128, Dna, 33, 1) }
    fn c09_t_rotl_dna128_k64_n63 [10] { rotl_body!(kmer128, u128, Dna, 64, 63) }
    fn c09_t_rotr_dna128_k64_n1 [10] { rotr_body!(kmer128, u128, Dna, 64, 1) }
    fn c09_t_pushr_dna128_k33 [10] { pushr_body!(kmer128, u128, Dna, 33) }
    fn c09_t_pushl_dna128_k64 [10] { pushl_body!(kmer128, u128, Dna, 64) }
    fn c09_t_rotl_iupac_k16_n15 [10] { rotl_body!(kmer, usize, Iupac, 16, 15) }
    fn c09_t_pushl_iupac_k16 [10] { pushl_body!(kmer, usize, Iupac, 16) }
    fn c09_t_rotl_iupac128_k32_n1 [10] { rotl_body!(kmer128, u128, Iupac, 32, 1) }
    fn c09_t_rotl_amino128_k11_n1 [10] { rotl_body!(kmer128, u128, Amino, 11, 1) }
    fn c09_t_rotr_amino128_k21_n20 [10] { rotr_body!(kmer128, u128, Amino, 21, 20) }
    fn c09_t_pushr_iupac128_k32 [10] { pushr_body!(kmer128, u128, Iupac, 32) }
    fn c09_t_rotr_amino_k10_n1 [10] { rotr_body!(kmer, usize, Amino, 10, 1) }
    fn c09_t_pushr_amino_k10 [10] { pushr_body!(kmer, usize, Amino, 10) }
    fn c09_t_rotl_amino128_k21_n1 [10] { rotl_body!(kmer128, u128, Amino, 21, 1) }
    fn c09_t_pushr_amino128_k21 [10] { pushr_body!(kmer128, u128, Amino, 21) }
    fn c09_t_rotl_text_k8_n1 [10] { rotl_body!(kmer, usize, text::Dna, 8, 1) }
    fn c09_t_pushr_text_k8 [10] { pushr_body!(kmer, usize, text::Dna, 8) }
    fn c09_t_rotl_miupac_k12_n1 [10] { rotl_body!(kmer, usize, masked::Iupac, 12, 1) }
    fn c09_t_pushl_miupac_k12 [10] { pushl_body!(kmer, usize, masked::Iupac, 12) }
    fn c09_t_rotl_dna_k1_n1 [10] { rotl_body!(kmer, usize, Dna, 1, 1) }
    fn c09_t_pushr_dna_k1 [10] { pushr_body!(kmer, usize, Dna, 1) }
    fn c09_t_rotl_dna_k31_n1 [10] { rotl_body!(kmer, usize, Dna, 31, 1) }
    fn c09_t_pushr_dna_k31 [10] { pushr_body!(kmer, usize, Dna, 31) }
}
