//! Input source shared by the symbolic run (Kani) and the native replay.
//!
//! Under `cfg(kani)` every `any_*` is a `kani::any()`; natively the same calls
//! pop the byte vectors that Kani's concrete playback printed, in the same
//! order, so a counterexample found by the solver is re-executed by *the same
//! harness body* against `/repo` built with the stock `bitvec`.

#[cfg(not(kani))]
mod native {
    use std::cell::RefCell;
    use std::collections::VecDeque;

    thread_local! {
        pub static INPUT: RefCell<VecDeque<Vec<u8>>> = RefCell::new(VecDeque::new());
        pub static EXHAUSTED: RefCell<bool> = RefCell::new(false);
    }

    /// Marker payload: an assumption of the harness does not hold for the
    /// replayed inputs (the replay is then void, not a reproduction).
    pub struct AssumeFailed;

    pub fn set_input(v: Vec<Vec<u8>>) {
        INPUT.with(|i| *i.borrow_mut() = v.into());
        EXHAUSTED.with(|e| *e.borrow_mut() = false);
    }

    pub fn input_exhausted() -> bool {
        EXHAUSTED.with(|e| *e.borrow())
    }

    pub fn leftover() -> usize {
        INPUT.with(|i| i.borrow().len())
    }

    pub fn pop(n: usize) -> Vec<u8> {
        let got = INPUT.with(|i| i.borrow_mut().pop_front());
        match got {
            Some(mut v) => {
                v.resize(n, 0);
                v
            }
            None => {
                EXHAUSTED.with(|e| *e.borrow_mut() = true);
                vec![0; n]
            }
        }
    }
}

#[cfg(not(kani))]
pub use native::{input_exhausted, leftover, set_input, AssumeFailed};

macro_rules! any_int {
    ($name:ident, $t:ty) => {
        #[inline(always)]
        pub fn $name() -> $t {
            #[cfg(kani)]
            {
                kani::any()
            }
            #[cfg(not(kani))]
            {
                let b = native::pop(core::mem::size_of::<$t>());
                let mut a = [0u8; core::mem::size_of::<$t>()];
                a.copy_from_slice(&b);
                <$t>::from_le_bytes(a)
            }
        }
    };
}

any_int!(any_u8, u8);
any_int!(any_u16, u16);
any_int!(any_u32, u32);
any_int!(any_u64, u64);
any_int!(any_u128, u128);
any_int!(any_usize, usize);

#[inline(always)]
pub fn any_bool() -> bool {
    #[cfg(kani)]
    {
        kani::any()
    }
    #[cfg(not(kani))]
    {
        native::pop(1)[0] & 1 == 1
    }
}

/// Arbitrary words, drawn one element at a time (keeps the replay order
/// independent of how Kani models `any::<[T; N]>()`).
#[inline(always)]
pub fn any_words<const W: usize>() -> [usize; W] {
    let mut w = [0usize; W];
    let mut i = 0;
    while i < W {
        w[i] = any_usize();
        i += 1;
    }
    w
}

#[inline(always)]
pub fn any_bytes<const N: usize>() -> [u8; N] {
    let mut w = [0u8; N];
    let mut i = 0;
    while i < N {
        w[i] = any_u8();
        i += 1;
    }
    w
}

#[inline(always)]
pub fn assume(c: bool) {
    #[cfg(kani)]
    kani::assume(c);
    #[cfg(not(kani))]
    if !c {
        std::panic::panic_any(native::AssumeFailed);
    }
}

/// Vacuity witness: must be SATISFIED in the symbolic run.
#[macro_export]
macro_rules! reach {
    ($c:expr, $m:literal) => {{
        #[cfg(kani)]
        kani::cover!($c, $m);
        #[cfg(not(kani))]
        {
            let _ = $c;
        }
    }};
    ($m:literal) => {{
        #[cfg(kani)]
        kani::cover!(true, $m);
    }};
}

/// Marker for expect-panic harnesses (`*_xp`): reaching it means the call
/// under test returned instead of panicking.
#[macro_export]
macro_rules! must_not_return {
    ($m:literal) => {
        panic!(concat!("MARKER ", $m))
    };
}

/// Declares harnesses once for both worlds: `#[kani::proof]` functions under
/// Kani, plain functions plus a name table for the native replay binary.
#[macro_export]
macro_rules! harnesses {
    ($( $(#[$m:meta])* fn $name:ident [$unw:expr] $body:block )*) => {
        $(
            $(#[$m])*
            #[cfg_attr(kani, kani::proof)]
            #[cfg_attr(kani, kani::unwind($unw))]
            pub fn $name() $body
        )*
        pub const TABLE: &[(&str, fn())] = &[ $( (stringify!($name), $name as fn()) ),* ];
    };
}
