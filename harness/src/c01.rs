//! C01 — text <-> packed sequence round trip is lossless; bad input is
//! rejected exactly (first offending byte).
use crate::oracle::{self, sym, Alpha, NONE};
use crate::pre::*;
use crate::vx::*;
use crate::{harnesses, reach};
use bio_seq::codec::{degenerate, masked, text};
use bio_seq::prelude::*;

/// parse N symbolic bytes through `TryFrom<Vec<u8>>`
macro_rules! parse_vec {
    ($A:ty, $al:expr, [$($b:ident),*], $n:expr) => {{
        $( let $b = any_u8(); )*
        let bytes: [u8; $n] = [$($b),*];
        let r = Seq::<$A>::try_from(vec![$($b),*]);
        check_parse::<$A, $n>(&$al, &bytes, r);
    }};
}

#[inline(always)]
pub fn check_parse<A: Codec, const N: usize>(al: &Alpha, bytes: &[u8; N], r: Result<Seq<A>, ParseBioError>) {
    // oracle: first rejected byte, by the documented alphabet
    let mut first_bad: Option<u8> = None;
    let mut i = 0;
    while i < N {
        if first_bad.is_none() && al.from_char[bytes[i] as usize] == NONE {
            first_bad = Some(bytes[i]);
        }
        i += 1;
    }
    reach!(r.is_ok(), "accepted");
    reach!(r.is_err(), "rejected");
    match r {
        Ok(s) => {
            assert!(first_bad.is_none(), "C01.parse.accepted_a_non_symbol_byte");
            assert!(s.len() == N, "C01.parse.one_symbol_per_byte");
            if N > 0 {
                let j = any_usize();
                assume(j < N);
                assert!(s.nth(j).to_bits() == al.from_char[bytes[j] as usize] as u8, "C01.parse.symbol_j_is_byte_j");
            }
            core::mem::forget(s);
        }
        Err(e) => {
            assert!(first_bad.is_some(), "C01.parse.refused_valid_text");
            assert!(e == ParseBioError::UnrecognisedBase(first_bad.unwrap()), "C01.parse.reports_first_bad_byte");
        }
    }
}

/// N = 1: the single byte is fully symbolic (all 256 values, incl. non-ASCII)
macro_rules! parse1 {
    ($A:ty, $al:expr) => {{
        let a = any_u8();
        let r = Seq::<$A>::try_from(vec![a]);
        check_parse::<$A, 1>(&$al, &[a], r);
    }};
}
/// N = 2: first byte from a concrete representative set (so the builder's state
/// stays concrete after the first step), second byte fully symbolic
macro_rules! parse2 {
    ($A:ty, $al:expr, $first:expr) => {{
        let b = any_u8();
        let r = Seq::<$A>::try_from(vec![$first, b]);
        check_parse2::<$A>(&$al, $first, b, r);
    }};
}
macro_rules! parse3 {
    ($A:ty, $al:expr, $first:expr, $second:expr) => {{
        let c = any_u8();
        let r = Seq::<$A>::try_from(vec![$first, $second, c]);
        let first_ok = $al.from_char[$first as usize] != NONE;
        let second_ok = $al.from_char[$second as usize] != NONE;
        let third_ok = $al.from_char[c as usize] != NONE;
        match r {
            Ok(s) => {
                assert!(first_ok && second_ok && third_ok, "C01.parse.accepted_a_non_symbol_byte");
                assert!(s.len() == 3, "C01.parse.one_symbol_per_byte");
                assert!(s.nth(0).to_bits() == $al.from_char[$first as usize] as u8, "C01.parse.symbol_j_is_byte_j");
                assert!(s.nth(1).to_bits() == $al.from_char[$second as usize] as u8, "C01.parse.symbol_j_is_byte_j");
                assert!(s.nth(2).to_bits() == $al.from_char[c as usize] as u8, "C01.parse.symbol_j_is_byte_j");
                core::mem::forget(s);
            }
            Err(e) => {
                assert!(!(first_ok && second_ok && third_ok), "C01.parse.refused_valid_text");
                let bad = if !first_ok { $first } else if !second_ok { $second } else { c };
                assert!(e == ParseBioError::UnrecognisedBase(bad), "C01.parse.reports_first_bad_byte");
            }
        }
        reach!("end");
    }};
}

#[inline(always)]
pub fn check_parse2<A: Codec>(al: &Alpha, a: u8, b: u8, r: Result<Seq<A>, ParseBioError>) {
    let a_ok = al.from_char[a as usize] != NONE;
    let b_ok = al.from_char[b as usize] != NONE;
    match r {
        Ok(s) => {
            assert!(a_ok && b_ok, "C01.parse.accepted_a_non_symbol_byte");
            assert!(s.len() == 2, "C01.parse.one_symbol_per_byte");
            assert!(s.nth(0).to_bits() == al.from_char[a as usize] as u8, "C01.parse.symbol_j_is_byte_j");
            assert!(s.nth(1).to_bits() == al.from_char[b as usize] as u8, "C01.parse.symbol_j_is_byte_j");
            core::mem::forget(s);
        }
        Err(e) => {
            assert!(!(a_ok && b_ok), "C01.parse.refused_valid_text");
            let bad = if !a_ok { a } else { b };
            assert!(e == ParseBioError::UnrecognisedBase(bad), "C01.parse.reports_first_bad_byte");
        }
    }
    reach!("end");
}

/// inductive step of the builder: push onto an owned sequence of L symbols
/// (symbolic content, spare capacity) keeps the old symbols and appends one
macro_rules! push_step {
    ($A:ty, $al:expr, $N:expr, $L:expr) => {{
        let b = <$A as Codec>::BITS as usize;
        let w = any_words::<2>();
        let a = arr::<$A, { $N }, 2>(w);
        let mut s = owned_cap(&a, 0, $L, $L + 4);
        let x = <$A as Codec>::try_from_bits(any_u8());
        assume(x.is_some());
        let x = x.unwrap();
        s.push(x);
        assert!(s.len() == $L + 1, "C01.push.len_plus_one");
        let i = any_usize();
        assume(i <= $L);
        if i == $L {
            assert!(s.nth(i) == x, "C01.push.appended_symbol");
        } else {
            assert!(s.nth(i).to_bits() == $al.from_bits[sym(&w, 0, b, i) as usize] as u8, "C01.push.old_symbols_unchanged");
        }
        reach!(i == $L, "new symbol");
        reach!(i < $L || $L == 0, "old symbol");
        core::mem::forget(s);
    }};
}

/// display: String::from(&slice) is the symbols' display characters, in order
macro_rules! display {
    ($A:ty, $al:expr, $N:expr, $o:expr, $n:expr) => {{
        let b = <$A as Codec>::BITS as usize;
        let w = any_words::<2>();
        let s = arr::<$A, { $N }, 2>(w);
        let win = &s[$o..$o + $n];
        let text = String::from(win);
        let bytes = text.as_bytes();
        assert!(bytes.len() == $n, "C01.display.one_char_per_symbol");
        let i = any_usize();
        assume(i < $n);
        let code = $al.from_bits[sym(&w, $o * b, b, i) as usize] as usize;
        assert!(bytes[i] == $al.to_char[code], "C01.display.char_i_is_symbol_i");
        // display -> parse gives the symbol back (composition with the parser's per-byte table)
        assert!(<$A as Codec>::try_from_ascii(bytes[i]).map(|x| x.to_bits()) == Some(code as u8), "C01.display.parses_back");
        reach!("end");
        core::mem::forget(text);
    }};
}

harnesses! {
    // ---- N = 0 and N = 1, every codec
    fn c01_q_parse0_dna [10] { let r = Seq::<Dna>::try_from(Vec::<u8>::new()); assert!(r.is_ok(), "C01.parse.empty_ok"); let s = r.unwrap(); assert!(s.len() == 0 && s.is_empty(), "C01.parse.empty_len"); reach!("end"); }
    fn c01_q_parse1_dna [10] { parse1!(Dna, oracle::DNA) }
    fn c01_q_parse1_iupac [10] { parse1!(Iupac, oracle::IUPAC) }
    fn c01_q_parse1_amino [10] { parse1!(Amino, oracle::AMINO) }
    fn c01_q_parse1_text [10] { parse1!(text::Dna, oracle::TEXT) }
    fn c01_q_parse1_mdna [10] { parse1!(masked::Dna, oracle::MDNA) }
    fn c01_q_parse1_miupac [10] { parse1!(masked::Iupac, oracle::MIUPAC) }
    fn c01_q_parse1_degen [10] { parse1!(degenerate::Dna, oracle::DEGEN) }
    // ---- N = 2
    fn c01_q_parse2_dna_G [10] { parse2!(Dna, oracle::DNA, b'G') }
    fn c01_q_parse2_dna_bad [10] { parse2!(Dna, oracle::DNA, b'N') }
    fn c01_t_parse2_amino_W [10] { parse2!(Amino, oracle::AMINO, b'W') }
    fn c01_q_parse2_miupac_n [10] { parse2!(masked::Iupac, oracle::MIUPAC, b'n') }
    fn c01_t_parse2_dna_T [10] { parse2!(Dna, oracle::DNA, b'T') }
    fn c01_t_parse2_dna_hi [10] { parse2!(Dna, oracle::DNA, 0xC3) }
    fn c01_t_parse2_iupac_gap [10] { parse2!(Iupac, oracle::IUPAC, b'-') }
    fn c01_t_parse2_iupac_bad [10] { parse2!(Iupac, oracle::IUPAC, b'a') }
    fn c01_t_parse2_amino_stop [10] { parse2!(Amino, oracle::AMINO, b'*') }
    fn c01_t_parse2_text_N [10] { parse2!(text::Dna, oracle::TEXT, b'N') }
    fn c01_t_parse2_mdna_pad [10] { parse2!(masked::Dna, oracle::MDNA, b'.') }
    fn c01_t_parse2_degen_C [10] { parse2!(degenerate::Dna, oracle::DEGEN, b'C') }
    // ---- N = 3
    fn c01_t_parse3_dna_CA [10] { parse3!(Dna, oracle::DNA, b'C', b'A') }
    fn c01_t_parse3_dna_CU [10] { parse3!(Dna, oracle::DNA, b'C', b'U') }
    // ---- builder step across the word boundary (capacity present)
    fn c01_q_push_dna_l31 [10] { push_step!(Dna, oracle::DNA, 64, 31) }
    fn c01_q_push_dna_l32 [10] { push_step!(Dna, oracle::DNA, 64, 32) }
    fn c01_t_push_amino_l10 [10] { push_step!(Amino, oracle::AMINO, 21, 10) }
    fn c01_q_push_miupac_l12 [10] { push_step!(masked::Iupac, oracle::MIUPAC, 25, 12) }
    fn c01_t_push_iupac_l15 [10] { push_step!(Iupac, oracle::IUPAC, 32, 15) }
    fn c01_t_push_iupac_l16 [10] { push_step!(Iupac, oracle::IUPAC, 32, 16) }
    fn c01_t_push_text_l7 [10] { push_step!(text::Dna, oracle::TEXT_RAW, 16, 7) }
    fn c01_t_push_text_l8 [10] { push_step!(text::Dna, oracle::TEXT_RAW, 16, 8) }
    fn c01_t_push_degen_l63 [10] { push_step!(degenerate::Dna, oracle::DEGEN, 128, 63) }
    fn c01_t_push_degen_l64 [10] { push_step!(degenerate::Dna, oracle::DEGEN, 128, 64) }
    fn c01_t_push_amino_l9 [10] { push_step!(Amino, oracle::AMINO, 21, 9) }
    fn c01_t_push_dna_l0 [10] { push_step!(Dna, oracle::DNA, 64, 0) }
    // ---- display
    fn c01_q_display_owned_dna_n2 [10] {
        // Display / to_string / String::from on an owned sequence
        let w = any_words::<2>();
        let src = arr::<Dna, 64, 2>(w);
        let s = owned_cap(&src, 31, 2, 2);
        let t1 = s.to_string();
        let t2 = String::from(&s);
        let i = any_usize();
        assume(i < 2);
        let ch = oracle::DNA.to_char[sym(&w, 62, 2, i) as usize];
        assert!(t1.as_bytes().len() == 2 && t2.as_bytes().len() == 2, "C01.display.one_char_per_symbol");
        assert!(t1.as_bytes()[i] == ch && t2.as_bytes()[i] == ch, "C01.display.owned_char_i_is_symbol_i");
        reach!("end");
        core::mem::forget(t1);
        core::mem::forget(t2);
        core::mem::forget(s);
    }
    fn c01_q_display_dna_o31_n2 [10] { display!(Dna, oracle::DNA, 64, 31, 2) }
    fn c01_q_display_amino_o10_n2 [10] { display!(Amino, oracle::AMINO, 21, 10, 2) }
    fn c01_t_display_dna_o0_n3 [10] { display!(Dna, oracle::DNA, 64, 0, 3) }
    fn c01_t_display_iupac_o15_n2 [10] { display!(Iupac, oracle::IUPAC, 32, 15, 2) }
    fn c01_t_display_miupac_o12_n2 [10] { display!(masked::Iupac, oracle::MIUPAC, 25, 12, 2) }
    // ---- other entry points agree with the byte parser (N = 1, all ASCII bytes; &str needs valid UTF-8)
    fn c01_q_entry_str_dna [10] {
        let a = any_u8();
        assume(a < 0x80);
        let buf = [a];
        // ASCII is valid UTF-8; skip the validation loop, it is not the subject
        let st = unsafe { core::str::from_utf8_unchecked(&buf) };
        let r = Seq::<Dna>::try_from(st);
        check_parse::<Dna, 1>(&oracle::DNA, &[a], r);
    }
    fn c01_q_entry_fromstr_dna [10] {
        let a = any_u8();
        assume(a < 0x80);
        let buf = [a];
        let st = unsafe { core::str::from_utf8_unchecked(&buf) };
        let r = Seq::<Dna>::from_str(st);
        check_parse::<Dna, 1>(&oracle::DNA, &[a], r);
    }
    fn c01_q_entry_str_multibyte [10] {
        // non-ASCII text through the &str / FromStr entry points: every byte of a multi-byte
        // character is a non-symbol byte and the first one must be reported
        // (U+0141 has the low byte 0x41 = 'A', U+012D 0x2D = '-')
        let txt: &str = "\u{141}";
        let r = Seq::<Dna>::try_from(txt);
        assert!(r == Err(ParseBioError::UnrecognisedBase(0xC5)), "C01.entry.str_non_ascii_must_be_refused_with_first_byte");
        let r2 = Seq::<Iupac>::from_str("\u{12d}");
        assert!(r2 == Err(ParseBioError::UnrecognisedBase(0xC4)), "C01.entry.fromstr_non_ascii_must_be_refused_with_first_byte");
        reach!("end");
    }
    fn c01_q_entry_string_multibyte_after_valid [10] {
        let txt = String::from("G\u{154}");
        let r = Seq::<Dna>::try_from(&txt);
        assert!(r == Err(ParseBioError::UnrecognisedBase(0xC5)), "C01.entry.string_non_ascii_must_be_refused_with_first_byte");
        reach!("end");
    }
    fn c01_q_entry_slice_dna [10] {
        let a = any_u8();
        let buf = [a];
        let r = Seq::<Dna>::try_from(&buf[..]);
        check_parse::<Dna, 1>(&oracle::DNA, &[a], r);
    }
    fn c01_t_entry_string_dna [10] {
        let a = any_u8();
        assume(a < 0x80);
        let st = unsafe { String::from_utf8_unchecked(vec![a]) };
        let r1 = Seq::<Dna>::try_from(&st);
        check_parse::<Dna, 1>(&oracle::DNA, &[a], r1);
        let r2 = Seq::<Dna>::try_from(st);
        check_parse::<Dna, 1>(&oracle::DNA, &[a], r2);
    }
    fn c01_q_from_iter_amino_n11 [14] {
        // collecting more symbols than fit one word for a width that does not divide 64
        let w = any_words::<2>();
        let src = arr::<Amino, 21, 2>(w);
        let s: Seq<Amino> = src[0..11].iter().collect();
        assert!(s.len() == 11, "C01.from_iter.len");
        let i = any_usize();
        assume(i < 11);
        assert!(s.nth(i).to_bits() == oracle::AMINO.from_bits[sym(&w, 0, 6, i) as usize] as u8, "C01.from_iter.symbols_in_order");
        reach!(i == 10, "symbol across the word boundary");
        core::mem::forget(s);
    }
    fn c01_q_entry_from_iter_dna [10] {
        // FromIterator<A>: two symbolic symbols
        let (a, b) = (any_u8(), any_u8());
        assume(a < 4 && b < 4);
        let s: Seq<Dna> = [Dna::try_from_bits(a).unwrap(), Dna::try_from_bits(b).unwrap()].into_iter().collect();
        assert!(s.len() == 2, "C01.from_iter.len");
        assert!(s.nth(0).to_bits() == a && s.nth(1).to_bits() == b, "C01.from_iter.symbols_in_order");
        reach!("end");
        core::mem::forget(s);
    }
}
