//! C01 — text <-> packed sequence round trip is lossless; bad input is
//! rejected exactly (first offending byte).
use crate::oracle::{self, sym, Alpha, NONE};
use crate::pre::*;
use crate::vx::*;
use crate::{harnesses, reach};
use bio_seq::codec::{degenerate, masked, text};
use bio_seq::prelude::*;

/// parse N symbolic bytes through `TryFrom<Vec<u8>>`
macro_rules! parse_vec {
    ($A:ty, $al:expr, [$($b:ident),*], $n:expr) => {{
        $( let $b = any_u8(); )*
        let bytes: [u8; $n] = [$($b),*];
        let r = Seq::<$A>::try_from(vec![$($b),*]);
        check_parse::<$A, $n>(&$al, &bytes, r);
    }};
}

#[inline(always)]
pub fn check_parse<A: Codec, const N: usize>(al: &Alpha, bytes: &[u8; N], r: Result<Seq<A>, ParseBioError>) {
    // oracle: first rejected byte, by the documented alphabet
    let mut first_bad: Option<u8> = None;
    let mut i = 0;
    while i < N {
        if first_bad.is_none() && al.from_char[bytes[i] as usize] == NONE {
            first_bad = Some(bytes[i]);
        }
        i += 1;
    }
    reach!(r.is_ok(), "accepted");
    reach!(r.is_err() || N == 0, "rejected");
    match r {
        Ok(s) => {
            assert!(first_bad.is_none(), "C01.parse.accepted_a_non_symbol_byte");
            assert!(s.len() == N, "C01.parse.one_symbol_per_byte");
            if N > 0 {
                let j = any_usize();
                assume(j < N);
                assert!(s.nth(j).to_bits() == al.from_char[bytes[j] as usize] as u8, "C01.parse.symbol_j_is_byte_j");
            }
            core::mem::forget(s);
        }
        Err(e) => {
            assert!(first_bad.is_some(), "C01.parse.refused_valid_text");
            assert!(e == ParseBioError::UnrecognisedBase(first_bad.unwrap()), "C01.parse.reports_first_bad_byte");
        }
    }
}

harnesses! {
    fn c01_p_parse_dna_n2 [4] { parse_vec!(Dna, oracle::DNA, [a, b], 2) }
    fn c01_p_parse_dna_n2_valid [4] {
        let (a, b) = (any_u8(), any_u8());
        assume(Dna::try_from_ascii(a).is_some() && Dna::try_from_ascii(b).is_some());
        let r = Seq::<Dna>::try_from(vec![a, b]);
        check_parse::<Dna, 2>(&oracle::DNA, &[a, b], r);
    }
    fn c01_p_parse_dna_n2_u3 [3] { parse_vec!(Dna, oracle::DNA, [a, b], 2) }
    fn c01_p_push2 [3] {
        let (a, b) = (any_u8(), any_u8());
        assume(a < 4 && b < 4);
        let mut s = Seq::<Dna>::new();
        s.push(Dna::try_from_bits(a).unwrap());
        s.push(Dna::try_from_bits(b).unwrap());
        assert!(s.len() == 2, "C01.p");
        core::mem::forget(s);
    }
}
