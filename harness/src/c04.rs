//! C04 — documented little-endian packing: symbol i lives at bits
//! [i*BITS,(i+1)*BITS) of integers, k-mers and raw word images.
use crate::oracle::{self, bits_at, isym, mask128, sym, Alpha};
use crate::pre::*;
use crate::vx::*;
use crate::{harnesses, reach};
use bio_seq::codec::{masked, text};
use bio_seq::prelude::*;

/// usize::try_from(&slice): exact integer for slices that fit a word, error otherwise
#[inline(always)]
pub fn to_usize<A: Codec, const N: usize, const W: usize>() {
    let b = A::BITS as usize;
    let w = any_words::<W>();
    let s = arr::<A, N, W>(w);
    let (a, n) = (any_usize(), any_usize());
    assume(n >= 1 && a <= N && n <= N - a);
    assume(n * b <= 64 + 2 * b);
    let r = usize::try_from(&s[a..a + n]);
    reach!(r.is_ok() && (a * b) % 64 + n * b > 64, "fits and straddles a word");
    reach!(r.is_err(), "too long");
    if n * b <= 64 {
        assert!(r.is_ok(), "C04.int.fits_but_refused");
        assert!(r.unwrap() == bits_at(&w, a * b, n * b), "C04.int.value_is_sum_of_code_times_2_pow");
    } else {
        assert!(r == Err(ParseBioError::SequenceTooLong(n, 64 / b)), "C04.int.too_long_must_be_error");
    }
}

/// u8::from(&slice) for slices of at most 8 bits
#[inline(always)]
pub fn to_u8<A: Codec, const N: usize, const W: usize>() {
    let b = A::BITS as usize;
    let w = any_words::<W>();
    let s = arr::<A, N, W>(w);
    let (a, n) = (any_usize(), any_usize());
    assume(n >= 1 && n <= 8 && n * b <= 8 && a <= N && n <= N - a);
    let v: u8 = (&s[a..a + n]).into();
    assert!(v as usize == bits_at(&w, a * b, n * b), "C04.u8.value");
    reach!((a * b) % 64 + n * b > 64 || b == 8, "straddles");
}

/// integer -> k-mer -> symbols / integer, usize storage
#[inline(always)]
pub fn kmer_int<A: Codec, const K: usize>(al: &Alpha) {
    let b = A::BITS as usize;
    let v = any_usize();
    assume(v as u128 <= mask128(K * b));
    let k = Kmer::<A, K>::from(v);
    assert!(usize::from(&k) == v, "C04.kmer.to_usize_roundtrip");
    assert!(k.len() == K, "C04.kmer.len");
    let i = any_usize();
    assume(i < K);
    let want = al.from_bits[isym(v as u128, b, i) as usize] as u8;
    assert!(k.nth(i).to_bits() == want, "C04.kmer.symbol_i_is_bits_i");
    let back = usize::try_from(&k[..]);
    assert!(back == Ok(v), "C04.kmer.slice_to_usize");
    reach!(i == K - 1, "last");
}

/// window -> k-mer: storage integer equals the oracle's packing, all storage types
macro_rules! kmer_from_window {
    ($A:ty, $K:expr, $S:ty, $N:expr, $W:expr) => {{
        let b = <$A as Codec>::BITS as usize;
        let w = any_words::<{ $W }>();
        let s = arr::<$A, { $N }, { $W }>(w);
        let a = any_usize();
        assume(a <= $N - $K);
        let k = Kmer::<$A, { $K }, $S>::try_from(&s[a..a + $K]);
        assert!(k.is_ok(), "C04.kmer.try_from_window_ok");
        let k = k.unwrap();
        let lo = bits_at(&w, a * b, if $K * b > 64 { 64 } else { $K * b }) as u128;
        let hi = if $K * b > 64 { (bits_at(&w, a * b + 64, $K * b - 64) as u128) << 64 } else { 0 };
        assert!(k.bs as u128 == (lo | hi), "C04.kmer.window_packing");
        assert!(k.rotated_left(0) == k, "C04.kmer.storage_bitarray_roundtrip");
        reach!((a * b) % 64 != 0, "unaligned");
    }};
}

/// raw word image of an owned sequence: layout from bit 0 of word 0. Rebuilding
/// (`from_raw(len, image)`) is decided separately for *arbitrary* images by
/// `from_raw_count`, so from_raw(len(s), into_raw(s)) == s follows by composition.
#[inline(always)]
pub fn check_image<A: Codec>(al: &Alpha, s: &Seq<A>, words: &[usize], off_bits: usize, n: usize) {
    let b = A::BITS as usize;
    let raw = s.into_raw();
    assert!(s.len() == n, "C04.raw.len");
    assert!(raw.len() * 64 >= n * b, "C04.raw.image_holds_all_symbols");
    let i = any_usize();
    assume(i < n);
    let want = bits_at(words, off_bits + i * b, b);
    assert!(bits_at(raw, i * b, b) == want, "C04.raw.layout_from_bit0_of_word0");
    reach!(i == n - 1, "last");
}

/// from_raw with a symbolic symbol count
#[inline(always)]
pub fn from_raw_count<A: Codec, const W: usize>(al: &Alpha) {
    let b = A::BITS as usize;
    let w = any_words::<W>();
    let count = any_usize();
    assume(count <= W * 64 / b + 2);
    let r = Seq::<A>::from_raw(count, &w);
    reach!(r.is_some() && count * b > 64 * (W - 1), "some, last word used");
    reach!(r.is_none(), "none");
    if count * b <= W * 64 {
        assert!(r.is_some(), "C04.from_raw.image_large_enough_but_refused");
        let s = r.unwrap();
        assert!(s.len() == count, "C04.from_raw.len_is_requested_count");
        let i = any_usize();
        assume(i < count);
        assert!(s.nth(i).to_bits() == al.from_bits[sym(&w, 0, b, i) as usize] as u8, "C04.from_raw.symbol");
        core::mem::forget(s);
    } else {
        assert!(r.is_none(), "C04.from_raw.image_too_small_must_be_none");
    }
}

macro_rules! raw_copy {
    ($A:ty, $al:expr, $N:expr, $o:expr, $n:expr) => {{
        let w = any_words::<2>();
        let a = arr::<$A, { $N }, 2>(w);
        let s: Seq<$A> = a[$o..$o + $n].to_owned();
        check_image::<$A>(&$al, &s, &w, (<$A as Codec>::BITS as usize) * $o, $n);
        core::mem::forget(s);
    }};
}

harnesses! {
    fn c04_q_to_usize_dna [10] { to_usize::<Dna, 96, 3>(); }
    fn c04_q_to_usize_amino [10] { to_usize::<Amino, 32, 3>(); }
    fn c04_q_to_usize_miupac [10] { to_usize::<masked::Iupac, 38, 3>(); }
    fn c04_t_to_usize_iupac [10] { to_usize::<Iupac, 48, 3>(); }
    fn c04_t_to_usize_text [10] { to_usize::<text::Dna, 24, 3>(); }
    fn c04_q_to_u8_dna [10] { to_u8::<Dna, 64, 2>(); }
    fn c04_q_to_u8_amino [10] { to_u8::<Amino, 21, 2>(); }
    fn c04_t_to_u8_iupac [10] { to_u8::<Iupac, 32, 2>(); }
    fn c04_t_to_u8_text [10] { to_u8::<text::Dna, 16, 2>(); }

    fn c04_q_kmer_int_dna_k1 [10] { kmer_int::<Dna, 1>(&oracle::DNA); }
    fn c04_q_kmer_int_dna_k5 [10] { kmer_int::<Dna, 5>(&oracle::DNA); }
    fn c04_q_kmer_int_dna_k32 [10] { kmer_int::<Dna, 32>(&oracle::DNA); }
    fn c04_q_kmer_int_iupac_k16 [10] { kmer_int::<Iupac, 16>(&oracle::IUPAC); }
    fn c04_q_kmer_int_amino_k10 [10] { kmer_int::<Amino, 10>(&oracle::AMINO); }
    fn c04_t_kmer_int_dna_k31 [10] { kmer_int::<Dna, 31>(&oracle::DNA); }
    fn c04_t_kmer_int_amino_k3 [10] { kmer_int::<Amino, 3>(&oracle::AMINO); }
    fn c04_t_kmer_int_miupac_k12 [10] { kmer_int::<masked::Iupac, 12>(&oracle::MIUPAC); }
    fn c04_t_kmer_int_dna_k2 [10] { kmer_int::<Dna, 2>(&oracle::DNA); }
    fn c04_t_kmer_int_dna_k3 [10] { kmer_int::<Dna, 3>(&oracle::DNA); }
    fn c04_t_kmer_int_dna_k4 [10] { kmer_int::<Dna, 4>(&oracle::DNA); }
    fn c04_t_kmer_int_dna_k6 [10] { kmer_int::<Dna, 6>(&oracle::DNA); }
    fn c04_t_kmer_int_dna_k7 [10] { kmer_int::<Dna, 7>(&oracle::DNA); }
    fn c04_t_kmer_int_dna_k8 [10] { kmer_int::<Dna, 8>(&oracle::DNA); }
    fn c04_t_kmer_int_dna_k9 [10] { kmer_int::<Dna, 9>(&oracle::DNA); }
    fn c04_t_kmer_int_dna_k10 [10] { kmer_int::<Dna, 10>(&oracle::DNA); }
    fn c04_t_kmer_int_dna_k11 [10] { kmer_int::<Dna, 11>(&oracle::DNA); }
    fn c04_t_kmer_int_dna_k12 [10] { kmer_int::<Dna, 12>(&oracle::DNA); }
    fn c04_t_kmer_int_dna_k13 [10] { kmer_int::<Dna, 13>(&oracle::DNA); }
    fn c04_t_kmer_int_dna_k14 [10] { kmer_int::<Dna, 14>(&oracle::DNA); }
    fn c04_t_kmer_int_dna_k15 [10] { kmer_int::<Dna, 15>(&oracle::DNA); }
    fn c04_t_kmer_int_dna_k16 [10] { kmer_int::<Dna, 16>(&oracle::DNA); }
    fn c04_t_kmer_int_dna_k17 [10] { kmer_int::<Dna, 17>(&oracle::DNA); }
    fn c04_t_kmer_int_dna_k18 [10] { kmer_int::<Dna, 18>(&oracle::DNA); }
    fn c04_t_kmer_int_dna_k19 [10] { kmer_int::<Dna, 19>(&oracle::DNA); }
    fn c04_t_kmer_int_dna_k20 [10] { kmer_int::<Dna, 20>(&oracle::DNA); }
    fn c04_t_kmer_int_dna_k21 [10] { kmer_int::<Dna, 21>(&oracle::DNA); }
    fn c04_t_kmer_int_dna_k22 [10] { kmer_int::<Dna, 22>(&oracle::DNA); }
    fn c04_t_kmer_int_dna_k23 [10] { kmer_int::<Dna, 23>(&oracle::DNA); }
    fn c04_t_kmer_int_dna_k24 [10] { kmer_int::<Dna, 24>(&oracle::DNA); }
    fn c04_t_kmer_int_dna_k25 [10] { kmer_int::<Dna, 25>(&oracle::DNA); }
    fn c04_t_kmer_int_dna_k26 [10] { kmer_int::<Dna, 26>(&oracle::DNA); }
    fn c04_t_kmer_int_dna_k27 [10] { kmer_int::<Dna, 27>(&oracle::DNA); }
    fn c04_t_kmer_int_dna_k28 [10] { kmer_int::<Dna, 28>(&oracle::DNA); }
    fn c04_t_kmer_int_dna_k29 [10] { kmer_int::<Dna, 29>(&oracle::DNA); }
    fn c04_t_kmer_int_dna_k30 [10] { kmer_int::<Dna, 30>(&oracle::DNA); }
    fn c04_t_kmer_int_iupac_k1 [10] { kmer_int::<Iupac, 1>(&oracle::IUPAC); }
    fn c04_t_kmer_int_iupac_k2 [10] { kmer_int::<Iupac, 2>(&oracle::IUPAC); }
    fn c04_t_kmer_int_iupac_k3 [10] { kmer_int::<Iupac, 3>(&oracle::IUPAC); }
    fn c04_t_kmer_int_iupac_k4 [10] { kmer_int::<Iupac, 4>(&oracle::IUPAC); }
    fn c04_t_kmer_int_iupac_k5 [10] { kmer_int::<Iupac, 5>(&oracle::IUPAC); }
    fn c04_t_kmer_int_iupac_k6 [10] { kmer_int::<Iupac, 6>(&oracle::IUPAC); }
    fn c04_t_kmer_int_iupac_k7 [10] { kmer_int::<Iupac, 7>(&oracle::IUPAC); }
    fn c04_t_kmer_int_iupac_k8 [10] { kmer_int::<Iupac, 8>(&oracle::IUPAC); }
    fn c04_t_kmer_int_iupac_k9 [10] { kmer_int::<Iupac, 9>(&oracle::IUPAC); }
    fn c04_t_kmer_int_iupac_k10 [10] { kmer_int::<Iupac, 10>(&oracle::IUPAC); }
    fn c04_t_kmer_int_iupac_k11 [10] { kmer_int::<Iupac, 11>(&oracle::IUPAC); }
    fn c04_t_kmer_int_iupac_k12 [10] { kmer_int::<Iupac, 12>(&oracle::IUPAC); }
    fn c04_t_kmer_int_iupac_k13 [10] { kmer_int::<Iupac, 13>(&oracle::IUPAC); }
    fn c04_t_kmer_int_iupac_k14 [10] { kmer_int::<Iupac, 14>(&oracle::IUPAC); }
    fn c04_t_kmer_int_iupac_k15 [10] { kmer_int::<Iupac, 15>(&oracle::IUPAC); }
    fn c04_t_kmer_int_amino_k1 [10] { kmer_int::<Amino, 1>(&oracle::AMINO); }
    fn c04_t_kmer_int_amino_k2 [10] { kmer_int::<Amino, 2>(&oracle::AMINO); }
    fn c04_t_kmer_int_amino_k4 [10] { kmer_int::<Amino, 4>(&oracle::AMINO); }
    fn c04_t_kmer_int_amino_k5 [10] { kmer_int::<Amino, 5>(&oracle::AMINO); }
    fn c04_t_kmer_int_amino_k6 [10] { kmer_int::<Amino, 6>(&oracle::AMINO); }
    fn c04_t_kmer_int_amino_k7 [10] { kmer_int::<Amino, 7>(&oracle::AMINO); }
    fn c04_t_kmer_int_amino_k8 [10] { kmer_int::<Amino, 8>(&oracle::AMINO); }
    fn c04_t_kmer_int_amino_k9 [10] { kmer_int::<Amino, 9>(&oracle::AMINO); }
    fn c04_q_kmer_int_u64 [10] {
        let v = any_u64();
        let k = Kmer::<Dna, 32, u64>::from(v);
        assert!(k.bs == v, "C04.kmer64.from_u64");
        let u = any_usize();
        let k2 = Kmer::<Dna, 32, u64>::from(u);
        assert!(k2.bs == u as u64, "C04.kmer64.from_usize");
        reach!("end");
    }

    fn c04_q_kmer_window_dna_k32_usize [10] { kmer_from_window!(Dna, 32, usize, 96, 3) }
    fn c04_q_kmer_window_dna_k7_usize [10] { kmer_from_window!(Dna, 7, usize, 96, 3) }
    fn c04_q_kmer_window_amino_k10_usize [10] { kmer_from_window!(Amino, 10, usize, 32, 3) }
    fn c04_q_kmer_window_dna_k32_u64 [10] { kmer_from_window!(Dna, 32, u64, 96, 3) }
    fn c04_q_kmer_window_dna_k33_u128 [10] { kmer_from_window!(Dna, 33, u128, 96, 3) }
    fn c04_q_kmer_window_dna_k64_u128 [10] { kmer_from_window!(Dna, 64, u128, 96, 3) }
    fn c04_t_kmer_window_amino_k21_u128 [10] { kmer_from_window!(Amino, 21, u128, 32, 3) }
    fn c04_t_kmer_window_iupac_k32_u128 [10] { kmer_from_window!(Iupac, 32, u128, 48, 3) }
    fn c04_t_kmer_window_iupac_k16_usize [10] { kmer_from_window!(Iupac, 16, usize, 48, 3) }

    // ---- raw images
    fn c04_q_raw_built_dna [10] {
        // freshly built, word-aligned owned sequence, any length up to two words
        let w = any_words::<2>();
        let n = any_usize();
        assume(n >= 1 && n <= 64);
        let s = owned2::<Dna>(w[0], w[1], n);
        reach!(n == 33, "33 symbols");
        check_image::<Dna>(&oracle::DNA, &s, &w, 0, n);
        core::mem::forget(s);
    }
    // owned copies of windows that do not start at a word boundary (concrete
    // shapes, symbolic content: copying is a bit-slice write, see DESIGN 2.4)
    fn c04_q_raw_copy_dna_o1_n4 [10] { raw_copy!(Dna, oracle::DNA, 64, 1, 4) }
    fn c04_q_raw_copy_dna_o31_n2 [10] { raw_copy!(Dna, oracle::DNA, 64, 31, 2) }
    fn c04_t_raw_copy_dna_o29_n4 [10] { raw_copy!(Dna, oracle::DNA, 64, 29, 4) }
    fn c04_t_raw_copy_dna_o32_n3 [10] { raw_copy!(Dna, oracle::DNA, 64, 32, 3) }
    fn c04_q_raw_copy_amino_o10_n2 [10] { raw_copy!(Amino, oracle::AMINO, 21, 10, 2) }
    fn c04_t_raw_copy_amino_o3_n2 [10] { raw_copy!(Amino, oracle::AMINO, 21, 3, 2) }
    fn c04_t_raw_copy_iupac_o15_n2 [10] { raw_copy!(Iupac, oracle::IUPAC, 32, 15, 2) }
    // images of EDITED sequences (argument windows at offsets that are not word aligned)
    fn c04_q_raw_after_prepend [10] {
        let w = any_words::<2>();
        let a = arr::<Dna, 64, 2>(w);
        let mut s = owned_cap(&a, 40, 2, 2);
        s.prepend(&a[3..6]);
        let raw = s.into_raw();
        let i = any_usize();
        assume(i < 5);
        let want = if i < 3 { sym(&w, 6, 2, i) } else { sym(&w, 80, 2, i - 3) };
        assert!(s.len() == 5 && raw.len() >= 1, "C04.raw.len");
        assert!(bits_at(raw, 2 * i, 2) as u8 == want, "C04.raw.layout_from_bit0_of_word0");
        reach!("end");
        core::mem::forget(s);
    }
    fn c04_q_raw_after_insert [10] {
        let w = any_words::<2>();
        let a = arr::<Dna, 64, 2>(w);
        let mut s = owned_cap(&a, 40, 2, 2);
        s.insert(1, &a[31..33]);
        let raw = s.into_raw();
        let i = any_usize();
        assume(i < 4);
        let want = if i < 1 { sym(&w, 80, 2, 0) } else if i < 3 { sym(&w, 62, 2, i - 1) } else { sym(&w, 80, 2, 1) };
        assert!(s.len() == 4 && raw.len() >= 1, "C04.raw.len");
        assert!(bits_at(raw, 2 * i, 2) as u8 == want, "C04.raw.layout_from_bit0_of_word0");
        reach!("end");
        core::mem::forget(s);
    }
    fn c04_q_raw_after_remove_and_append [10] {
        let w = any_words::<2>();
        let a = arr::<Dna, 64, 2>(w);
        let mut s = owned_cap(&a, 40, 4, 6);
        s.remove(0..2);
        s.append(&a[5..7]);
        let raw = s.into_raw();
        let i = any_usize();
        assume(i < 4);
        let want = if i < 2 { sym(&w, 80, 2, i + 2) } else { sym(&w, 10, 2, i - 2) };
        assert!(s.len() == 4 && raw.len() >= 1, "C04.raw.len");
        assert!(bits_at(raw, 2 * i, 2) as u8 == want, "C04.raw.layout_from_bit0_of_word0");
        reach!("end");
        core::mem::forget(s);
    }
    fn c04_q_raw_after_rev [10] {
        let w = any_words::<2>();
        let a = arr::<Dna, 64, 2>(w);
        let s: Seq<Dna> = a[31..34].to_rev();
        let raw = s.into_raw();
        let i = any_usize();
        assume(i < 3);
        assert!(bits_at(raw, 2 * i, 2) as u8 == sym(&w, 62, 2, 2 - i), "C04.raw.layout_from_bit0_of_word0");
        reach!("end");
        core::mem::forget(s);
    }
    fn c04_q_from_raw_count_dna_w1 [10] { from_raw_count::<Dna, 1>(&oracle::DNA); }
    fn c04_q_from_raw_count_dna_w2 [10] { from_raw_count::<Dna, 2>(&oracle::DNA); }
    fn c04_q_from_raw_count_amino_w2 [10] { from_raw_count::<Amino, 2>(&oracle::AMINO); }
    fn c04_t_from_raw_count_iupac_w2 [10] { from_raw_count::<Iupac, 2>(&oracle::IUPAC); }
    fn c04_t_from_raw_count_miupac_w1 [10] { from_raw_count::<masked::Iupac, 1>(&oracle::MIUPAC); }
    fn c04_q_seq_into_usize [10] {
        // From<Seq> for usize on an owned sequence that fits a word
        let w = any_usize();
        let n = any_usize();
        assume(n >= 1 && n <= 32);
        let s = owned1::<Dna>(w, n);
        let v: usize = s.into();
        assert!(v == bits_at(&[w], 0, 2 * n), "C04.seq.into_usize");
        reach!(n == 32, "full word");
    }
}
