//! Pre-state constructors: sequences over arbitrary symbolic words, built
//! through bio-seq's public fields/constructors only (no parsing, no memcpy).
use crate::vx::*;
use bio_seq::prelude::*;
use bitvec::prelude::*;
use core::marker::PhantomData;

pub type Bv = BitVec<usize, Lsb0>;

/// static-style array over `W` words; derefs to a slice of `N` symbols
#[inline(always)]
pub fn arr<A: Codec, const N: usize, const W: usize>(words: [usize; W]) -> SeqArray<A, N, W> {
    SeqArray {
        _p: PhantomData,
        ba: BitArray::new(words),
    }
}

/// usize-backed k-mer with the given storage integer
#[inline(always)]
pub fn kmer<A: Codec, const K: usize>(v: usize) -> Kmer<A, K, usize> {
    Kmer {
        _p: PhantomData,
        bs: v,
    }
}

#[inline(always)]
pub fn kmer64<A: Codec, const K: usize>(v: u64) -> Kmer<A, K, u64> {
    Kmer {
        _p: PhantomData,
        bs: v,
    }
}

#[inline(always)]
pub fn kmer128<A: Codec, const K: usize>(v: u128) -> Kmer<A, K, u128> {
    Kmer {
        _p: PhantomData,
        bs: v,
    }
}

/// owned sequence of `len` symbols over one typed word, internal head 0,
/// capacity 64 bits (typed element write, never memcpy)
#[inline(always)]
pub fn owned1<A: Codec>(w: usize, len: usize) -> Seq<A> {
    let mut bv: Bv = BitVec::from_vec(vec![w]);
    bv.truncate(len * A::BITS as usize);
    Seq::from(bv)
}

/// owned sequence over two typed words (capacity 128 bits)
#[inline(always)]
pub fn owned2<A: Codec>(w0: usize, w1: usize, len: usize) -> Seq<A> {
    let mut bv: Bv = BitVec::from_vec(vec![w0, w1]);
    bv.truncate(len * A::BITS as usize);
    Seq::from(bv)
}

/// owned sequence holding the `len` symbols of `src` that start at symbol
/// `off`, with room for `cap` symbols: `with_capacity` + one `append`. This is
/// the pre-state for operations that WRITE (measured: writes followed by reads
/// on `from_vec`-built vectors do not finish, this form does).
#[inline(always)]
pub fn owned_cap<A: Codec, const N: usize, const W: usize>(src: &SeqArray<A, N, W>, off: usize, len: usize, cap: usize) -> Seq<A> {
    let mut s: Seq<A> = Seq::with_capacity(cap);
    s.append(&src[off..off + len]);
    s
}
