//! Independent oracle: plain integer arithmetic over raw little-endian words and
//! the *documented* alphabets typed from their specifications. Nothing in this
//! file calls `bio_seq` or `bitvec`.

/// `n` (1..=64) bits starting at absolute bit `pos` of a little-endian word array
/// (bit 0 = least significant bit of word 0).
#[inline(always)]
pub fn bits_at(words: &[usize], pos: usize, n: usize) -> usize {
    let w = pos / 64;
    let o = pos % 64;
    let mut v = words[w] >> o;
    if o + n > 64 {
        v |= words[w + 1] << (64 - o);
    }
    if n >= 64 {
        v
    } else {
        v & ((1usize << n) - 1)
    }
}

/// code of symbol `i` of a sequence that starts at bit `off`, `bits` per symbol
#[inline(always)]
pub fn sym(words: &[usize], off: usize, bits: usize, i: usize) -> u8 {
    bits_at(words, off + i * bits, bits) as u8
}

#[inline(always)]
pub fn mask(nbits: usize) -> usize {
    if nbits >= 64 {
        usize::MAX
    } else {
        (1usize << nbits) - 1
    }
}

#[inline(always)]
pub fn mask128(nbits: usize) -> u128 {
    if nbits >= 128 {
        u128::MAX
    } else {
        (1u128 << nbits) - 1
    }
}

/// symbol `i` of a packed integer
#[inline(always)]
pub fn isym(v: u128, bits: usize, i: usize) -> u8 {
    ((v >> (i * bits)) & mask128(bits)) as u8
}

pub const NONE: i16 = -1;

/// A documented alphabet as lookup tables (built at compile time from rows).
pub struct Alpha {
    pub bits: u8,
    pub n: usize,
    /// bit pattern -> canonical code (or NONE)
    pub from_bits: [i16; 256],
    /// input byte -> canonical code (or NONE)
    pub from_char: [i16; 256],
    /// canonical code -> display byte (0 where not a symbol)
    pub to_char: [u8; 256],
    /// canonical codes in the documented `items()` order
    pub order: [u8; 64],
}

/// rows: (canonical code, display char); alt_bits: (alternative code, canonical
/// code); alt_chars: (accepted input char, canonical code)
pub const fn alpha(
    bits: u8,
    rows: &[(u8, u8)],
    alt_bits: &[(u8, u8)],
    alt_chars: &[(u8, u8)],
) -> Alpha {
    let mut a = Alpha {
        bits,
        n: rows.len(),
        from_bits: [NONE; 256],
        from_char: [NONE; 256],
        to_char: [0; 256],
        order: [0; 64],
    };
    let mut i = 0;
    while i < rows.len() {
        let (code, ch) = rows[i];
        assert!(a.from_bits[code as usize] == NONE, "duplicate code in oracle table");
        assert!(a.from_char[ch as usize] == NONE, "duplicate char in oracle table");
        assert!((code as u16) < (1u16 << bits), "oracle code wider than width");
        a.from_bits[code as usize] = code as i16;
        a.from_char[ch as usize] = code as i16;
        a.to_char[code as usize] = ch;
        a.order[i] = code;
        i += 1;
    }
    i = 0;
    while i < alt_bits.len() {
        let (alt, code) = alt_bits[i];
        assert!(a.from_bits[alt as usize] == NONE, "duplicate alt code in oracle table");
        a.from_bits[alt as usize] = code as i16;
        i += 1;
    }
    i = 0;
    while i < alt_chars.len() {
        let (ch, code) = alt_chars[i];
        assert!(a.from_char[ch as usize] == NONE, "duplicate alt char in oracle table");
        a.from_char[ch as usize] = code as i16;
        i += 1;
    }
    a
}

// ---------------------------------------------------------------- 2-bit DNA
/// README / codec::dna: `A: 00, C: 01, G: 10, T: 11`
pub const DNA: Alpha = alpha(2, &[(0, b'A'), (1, b'C'), (2, b'G'), (3, b'T')], &[], &[]);

/// Watson-Crick complement on 2-bit codes
pub const fn dna_comp(c: u8) -> u8 {
    match c {
        0 => 3,
        1 => 2,
        2 => 1,
        _ => 0,
    }
}

// ---------------------------------------------------------------- 4-bit IUPAC
// documented one-hot layout: A=1000 C=0100 G=0010 T=0001; a code is the union
// of its nucleotides (IUPAC-IUB 1984 nomenclature)
pub const IA: u8 = 8;
pub const IC: u8 = 4;
pub const IG: u8 = 2;
pub const IT: u8 = 1;
pub const IUPAC_ROWS: [(u8, u8); 16] = [
    (IA, b'A'),
    (IC, b'C'),
    (IG, b'G'),
    (IT, b'T'),
    (IA | IG, b'R'),
    (IC | IT, b'Y'),
    (IC | IG, b'S'),
    (IA | IT, b'W'),
    (IG | IT, b'K'),
    (IA | IC, b'M'),
    (IC | IG | IT, b'B'),
    (IA | IG | IT, b'D'),
    (IA | IC | IT, b'H'),
    (IA | IC | IG, b'V'),
    (IA | IC | IG | IT, b'N'),
    (0, b'-'),
];
pub const IUPAC: Alpha = alpha(4, &IUPAC_ROWS, &[], &[]);

/// complement of a nucleotide set = set of complements (A<->T, C<->G)
pub const fn iupac_comp(c: u8) -> u8 {
    let mut r = 0;
    if c & IA != 0 {
        r |= IT;
    }
    if c & IT != 0 {
        r |= IA;
    }
    if c & IC != 0 {
        r |= IG;
    }
    if c & IG != 0 {
        r |= IC;
    }
    r
}

/// Dna code -> IUPAC singleton
pub const fn dna_to_iupac(d: u8) -> u8 {
    match d {
        0 => IA,
        1 => IC,
        2 => IG,
        _ => IT,
    }
}

// ---------------------------------------------------------------- NCBI translation table 1
// verbatim from the NCBI genetic-code file (transl_table=1)
pub const NCBI1_AAS: &[u8; 64] =
    b"FFLLSSSSYY**CC*WLLLLPPPPHHQQRRRRIIIMTTTTNNKKSSRRVVVVAAAADDEEGGGG";
pub const NCBI1_B1: &[u8; 64] =
    b"TTTTTTTTTTTTTTTTCCCCCCCCCCCCCCCCAAAAAAAAAAAAAAAAGGGGGGGGGGGGGGGG";
pub const NCBI1_B2: &[u8; 64] =
    b"TTTTCCCCAAAAGGGGTTTTCCCCAAAAGGGGTTTTCCCCAAAAGGGGTTTTCCCCAAAAGGGG";
pub const NCBI1_B3: &[u8; 64] =
    b"TCAGTCAGTCAGTCAGTCAGTCAGTCAGTCAGTCAGTCAGTCAGTCAGTCAGTCAGTCAGTCAG";

const fn base_code(ch: u8) -> u8 {
    match ch {
        b'A' => 0,
        b'C' => 1,
        b'G' => 2,
        _ => 3,
    }
}

/// amino-acid letter for the codon with 2-bit base codes (b1,b2,b3), indexed by
/// the packed little-endian codon value b1 | b2<<2 | b3<<4
pub const NCBI1_BY_PACKED: [u8; 64] = {
    let mut t = [0u8; 64];
    let mut i = 0;
    while i < 64 {
        let p = base_code(NCBI1_B1[i]) | (base_code(NCBI1_B2[i]) << 2) | (base_code(NCBI1_B3[i]) << 4);
        t[p as usize] = NCBI1_AAS[i];
        i += 1;
    }
    t
};

// ---------------------------------------------------------------- 6-bit amino
// documented: canonical code of an amino acid = packed bits of one of its codons
// (comment column of codec/amino.rs, e.g. A = GCA), every other codon of the
// same amino acid is an alternative code; '*' is stop.
pub const AMINO_CANON: [(u8, u8); 21] = {
    // (letter, canonical codon as text)
    let rows: [(u8, &[u8; 3]); 21] = [
        (b'A', b"GCA"),
        (b'C', b"TGC"),
        (b'D', b"GAC"),
        (b'E', b"GAA"),
        (b'F', b"TTC"),
        (b'G', b"GGA"),
        (b'H', b"CAC"),
        (b'I', b"ATA"),
        (b'K', b"AAA"),
        (b'L', b"CTA"),
        (b'M', b"ATG"),
        (b'N', b"AAC"),
        (b'P', b"CCA"),
        (b'Q', b"CAA"),
        (b'R', b"AGA"),
        (b'S', b"AGC"),
        (b'T', b"ACA"),
        (b'V', b"GTA"),
        (b'W', b"TGG"),
        (b'Y', b"TAC"),
        (b'*', b"TAA"),
    ];
    let mut out = [(0u8, 0u8); 21];
    let mut i = 0;
    while i < 21 {
        let c = rows[i].1;
        let p = base_code(c[0]) | (base_code(c[1]) << 2) | (base_code(c[2]) << 4);
        out[i] = (p, rows[i].0);
        i += 1;
    }
    out
};

pub const AMINO: Alpha = {
    // alternatives: every codon whose NCBI-1 letter is X and that is not X's canonical code
    let mut alts = [(0u8, 0u8); 43];
    let mut n = 0;
    let mut p = 0;
    while p < 64 {
        let letter = NCBI1_BY_PACKED[p];
        let mut canon = 255u8;
        let mut j = 0;
        while j < 21 {
            if AMINO_CANON[j].1 == letter {
                canon = AMINO_CANON[j].0;
            }
            j += 1;
        }
        assert!(canon != 255);
        if canon != p as u8 {
            alts[n] = (p as u8, canon);
            n += 1;
        }
        p += 1;
    }
    assert!(n == 43);
    alpha(6, &AMINO_CANON, &alts, &[])
};

// ---------------------------------------------------------------- 8-bit text
/// codec::text: "accepts A C G T N"; the code of a symbol is its ASCII byte
pub const TEXT: Alpha = alpha(
    8,
    &[(b'A', b'A'), (b'C', b'C'), (b'G', b'G'), (b'T', b'T'), (b'N', b'N')],
    &[],
    &[],
);

/// text::Dna as a raw 8-bit container: every byte is a storable pattern (only
/// A,C,G,T,N are symbols); unsafe_from_bits is the identity wrapper, so
/// positional reads are compared as raw codes
pub const TEXT_RAW: Alpha = {
    let mut a = alpha(8, &[], &[], &[]);
    let mut i = 0;
    while i < 256 {
        a.from_bits[i] = i as i16;
        i += 1;
    }
    a
};

// ---------------------------------------------------------------- masked 4-bit DNA
// documented (codec/masked/dna.rs): one-hot A C G T, masked form = bitwise
// inverse, N=0000 / n=1111, gap '-' 1100 (alt 0011), pad '.' 1010 (alt 0101),
// two unknown codes '?' 0110 and '!' 1001
pub const MDNA: Alpha = alpha(
    4,
    &[
        (0b1000, b'A'),
        (0b0100, b'C'),
        (0b0010, b'G'),
        (0b0001, b'T'),
        (0b0111, b'a'),
        (0b1011, b'c'),
        (0b1101, b'g'),
        (0b1110, b't'),
        (0b0000, b'N'),
        (0b1111, b'n'),
        (0b1100, b'-'),
        (0b1010, b'.'),
        (0b0110, b'?'),
        (0b1001, b'!'),
    ],
    &[(0b0011, 0b1100), (0b0101, 0b1010)],
    &[],
);

// ---------------------------------------------------------------- masked 5-bit IUPAC
// documented (codec/masked/iupac.rs): bits 4,3 = A,C ; bit 2 = mask flag ;
// bits 1,0 = G,T.  Upper-case letter unmasked, lower-case masked, '-' / '.'
pub const fn miupac_code(set4: u8, masked: bool) -> u8 {
    // set4 in the 4-bit one-hot layout A=8 C=4 G=2 T=1
    let hi = (set4 >> 2) & 0b11; // A,C
    let lo = set4 & 0b11; // G,T
    (hi << 3) | (if masked { 0b100 } else { 0 }) | lo
}

pub const MIUPAC: Alpha = {
    let mut rows = [(0u8, 0u8); 32];
    let mut i = 0;
    while i < 16 {
        let (set4, ch) = IUPAC_ROWS[i];
        rows[i] = (miupac_code(set4, false), ch);
        let lower = if ch == b'-' { b'.' } else { ch + 32 };
        rows[16 + i] = (miupac_code(set4, true), lower);
        i += 1;
    }
    // declaration order of the enum differs from IUPAC_ROWS; `order` is fixed
    // up by the C05 harness from its own documented list
    alpha(5, &rows, &[], &[])
};

/// nucleotide set (4-bit one-hot) underlying a masked-IUPAC code
pub const fn miupac_set(code: u8) -> u8 {
    (((code >> 3) & 0b11) << 2) | (code & 0b11)
}

// ---------------------------------------------------------------- 1-bit degenerate
/// codec/degenerate: W(eak)=0 for A,T ; S(trong)=1 for C,G
pub const DEGEN: Alpha = alpha(
    1,
    &[(0, b'W'), (1, b'S')],
    &[],
    &[(b'A', 0), (b'T', 0), (b'C', 1), (b'G', 1)],
);

// ---------------------------------------------------------------- colexicographic order
/// compare two equal-length symbol strings packed in integers: last symbol most
/// significant, written as an explicit symbol loop (not as integer compare)
pub fn colex_cmp(a: u128, b: u128, bits: usize, k: usize) -> core::cmp::Ordering {
    let mut i = k;
    while i > 0 {
        i -= 1;
        let x = isym(a, bits, i);
        let y = isym(b, bits, i);
        if x < y {
            return core::cmp::Ordering::Less;
        }
        if x > y {
            return core::cmp::Ordering::Greater;
        }
    }
    core::cmp::Ordering::Equal
}

/// reverse the order of `k` symbols of `bits` bits packed in `v`
pub fn rev_syms(v: u128, bits: usize, k: usize) -> u128 {
    let mut r: u128 = 0;
    let mut i = 0;
    while i < k {
        r |= (isym(v, bits, i) as u128) << ((k - 1 - i) * bits);
        i += 1;
    }
    r
}

/// rotate symbols left by `n` (< k) positions: symbol i of the result = symbol (i+n) mod k.
/// Closed form on the packed integer (v < 2^(k*bits), k*bits <= 128), no loop.
pub fn rotl_syms(v: u128, bits: usize, k: usize, n: usize) -> u128 {
    if n == 0 {
        return v;
    }
    let lo = v >> (n * bits); // symbols n.. move down to 0..
    let hi = (v & mask128(n * bits)) << ((k - n) * bits); // symbols 0..n move to the top
    (lo | hi) & mask128(k * bits)
}
