//! C13 — standard DNA -> amino translation is NCBI table 1 for every codon at
//! every position.
use crate::oracle::{self, bits_at, NCBI1_BY_PACKED};
use crate::pre::*;
use crate::vx::*;
use crate::{harnesses, must_not_return, reach};
use bio_seq::prelude::*;
use bio_seq::translation::{TranslationTable, STANDARD};

harnesses! {
    fn c13_q_codon_any_offset [10] {
        // all 64 codons x all 94 codon positions of a 3-word buffer (every in-word
        // offset and both word-straddling positions) in one query
        let w = any_words::<3>();
        let s = arr::<Dna, 96, 3>(w);
        let a = any_usize();
        assume(a <= 93);
        let codon = &s[a..a + 3];
        let amino = STANDARD.to_amino(codon);
        let packed = bits_at(&w, 2 * a, 6);
        assert!(amino.to_char() as u32 == NCBI1_BY_PACKED[packed] as u32, "C13.codon.ncbi_table_1");
        reach!(a == 31, "straddle first boundary");
        reach!(a == 63, "straddle second boundary");
        reach!(amino.to_char() == '*', "stop codon");
        reach!(amino.to_char() == 'W', "tryptophan");
    }
    fn c13_q_windows3 [10] {
        // translating by windows(3): the j-th amino acid is the translation of triplet j..j+3
        let w = any_words::<2>();
        let s = arr::<Dna, 64, 2>(w);
        let o = any_usize();
        assume(o <= 58);
        let win = &s[o..o + 6];
        let mut it = win.windows(3);
        let mut j = 0usize;
        while j < 4 {
            let c = it.next();
            assert!(c.is_some(), "C13.windows.count");
            let amino = STANDARD.to_amino(c.unwrap());
            let packed = bits_at(&w, 2 * (o + j), 6);
            assert!(amino.to_char() as u32 == NCBI1_BY_PACKED[packed] as u32, "C13.windows.triplet_translation");
            j += 1;
        }
        assert!(it.next().is_none(), "C13.windows.terminates");
        reach!(o == 29, "straddle");
    }
    fn c13_q_chunks3 [10] {
        let w = any_words::<2>();
        let s = arr::<Dna, 64, 2>(w);
        let o = any_usize();
        assume(o <= 57);
        let win = &s[o..o + 7];
        let mut it = win.chunks(3);
        let mut j = 0usize;
        while j < 2 {
            let c = it.next();
            assert!(c.is_some(), "C13.chunks.count");
            let amino = STANDARD.to_amino(c.unwrap());
            let packed = bits_at(&w, 2 * (o + 3 * j), 6);
            assert!(amino.to_char() as u32 == NCBI1_BY_PACKED[packed] as u32, "C13.chunks.triplet_translation");
            j += 1;
        }
        assert!(it.next().is_none(), "C13.chunks.terminates");
        reach!(o == 28, "straddle");
    }
    fn c13_q_wrong_length_xp [10] {
        let w = any_words::<2>();
        let s = arr::<Dna, 64, 2>(w);
        let (a, n) = (any_usize(), any_usize());
        assume(n <= 5 && n != 3 && a <= 59);
        reach!("before call");
        let _ = STANDARD.to_amino(&s[a..a + n]);
        must_not_return!("C13.wrong_length_translated");
    }
    fn c13_q_to_codon_is_ambiguous [10] {
        // documented: no DNA reverse translation in the standard table
        let b = any_u8();
        let x = Amino::try_from_bits(b);
        assume(x.is_some());
        let r = STANDARD.to_codon(x.unwrap());
        assert!(r.is_err(), "C13.to_codon.refuses");
        reach!("end");
    }
}
