//! C08 — k-mer iteration and construction reproduce the sequence's windows.
use crate::oracle::{self, bits_at, isym, mask128, Alpha};
use crate::pre::*;
use crate::vx::*;
use crate::{harnesses, reach};
use bio_seq::codec::{masked, text};
use bio_seq::prelude::*;

/// packed value (up to 128 bits) of `k` symbols starting at symbol `a`
#[inline(always)]
fn pack128(w: &[usize], bit: usize, nbits: usize) -> u128 {
    let lo = bits_at(w, bit, if nbits > 64 { 64 } else { nbits }) as u128;
    let hi = if nbits > 64 { (bits_at(w, bit + 64, nbits - 64) as u128) << 64 } else { 0 };
    lo | hi
}

/// kmers::<K>() over a window of n symbols at a symbolic offset
macro_rules! kmers_iter {
    ($A:ty, $K:expr, $n:expr, $N:expr, $W:expr) => {{
        let b = <$A as Codec>::BITS as usize;
        let w = any_words::<{ $W }>();
        let s = arr::<$A, { $N }, { $W }>(w);
        let o = any_usize();
        assume(o <= $N - $n);
        let win = &s[o..o + $n];
        let count: usize = if $n >= $K { $n - $K + 1 } else { 0 };
        let mut it = win.kmers::<{ $K }>();
        let mut wi = win.windows($K);
        let mut j = 0usize;
        while j < count {
            let k = it.next();
            assert!(k.is_some(), "C08.kmers.too_few_items");
            let k = k.unwrap();
            assert!(k.bs as u128 == pack128(&w, (o + j) * b, $K * b), "C08.kmers.item_is_window_j");
            let ws = wi.next();
            assert!(ws.is_some(), "C08.kmers.windows_iterator_shorter");
            assert!(k == ws.unwrap(), "C08.kmers.eq_windows_item");
            j += 1;
        }
        assert!(it.next().is_none(), "C08.kmers.too_many_items");
        assert!(it.next().is_none(), "C08.kmers.none_is_sticky");
        assert!(wi.next().is_none(), "C08.kmers.windows_iterator_longer");
        reach!(o * b % 64 != 0, "unaligned");
    }};
}

/// Kmer::try_from(&slice): Ok exactly when the length is K
macro_rules! kmer_try_from {
    ($A:ty, $K:expr, $S:ty, $N:expr, $W:expr) => {{
        let b = <$A as Codec>::BITS as usize;
        let w = any_words::<{ $W }>();
        let s = arr::<$A, { $N }, { $W }>(w);
        let (o, n) = (any_usize(), any_usize());
        assume(n <= $K + 2 && o <= $N - ($K + 2));
        let r = Kmer::<$A, { $K }, $S>::try_from(&s[o..o + n]);
        reach!(r.is_ok() && o > 0, "ok");
        reach!(n == $K + 1, "longer");
        reach!(n + 1 == $K, "shorter");
        if n == $K {
            assert!(r.is_ok(), "C08.try_from.right_length_refused");
            assert!(r.unwrap().bs as u128 == pack128(&w, o * b, $K * b), "C08.try_from.symbols");
        } else {
            assert!(r == Err(ParseBioError::MismatchedLength($K, n)), "C08.try_from.wrong_length_must_be_error");
        }
    }};
}

harnesses! {
    // K family: each K is separately generated code
    fn c08_q_kmers_dna_k1_n2 [10] { kmers_iter!(Dna, 1, 2, 64, 2) }
    fn c08_q_kmers_dna_k4_n3 [10] { kmers_iter!(Dna, 4, 3, 64, 2) }
    fn c08_q_kmers_dna_k4_n4 [10] { kmers_iter!(Dna, 4, 4, 64, 2) }
    fn c08_q_kmers_dna_k4_n6 [10] { kmers_iter!(Dna, 4, 6, 64, 2) }
    fn c08_q_kmers_dna_k31_n32 [10] { kmers_iter!(Dna, 31, 32, 96, 3) }
    fn c08_q_kmers_dna_k32_n33 [10] { kmers_iter!(Dna, 32, 33, 96, 3) }
    fn c08_q_kmers_dna_k32_n31 [10] { kmers_iter!(Dna, 32, 31, 96, 3) }
    fn c08_q_kmers_iupac_k16_n17 [10] { kmers_iter!(Iupac, 16, 17, 48, 3) }
    fn c08_q_kmers_amino_k10_n11 [10] { kmers_iter!(Amino, 10, 11, 32, 3) }
    fn c08_t_kmers_dna_k2_n4 [10] { kmers_iter!(Dna, 2, 4, 64, 2) }
    fn c08_t_kmers_dna_k3_n5 [10] { kmers_iter!(Dna, 3, 5, 64, 2) }
    fn c08_t_kmers_dna_k5_n7 [10] { kmers_iter!(Dna, 5, 7, 64, 2) }
    fn c08_t_kmers_dna_k8_n9 [10] { kmers_iter!(Dna, 8, 9, 64, 2) }
    fn c08_t_kmers_dna_k16_n18 [10] { kmers_iter!(Dna, 16, 18, 96, 3) }
    fn c08_t_kmers_iupac_k1_n2 [10] { kmers_iter!(Iupac, 1, 2, 32, 2) }
    fn c08_t_kmers_iupac_k15_n16 [10] { kmers_iter!(Iupac, 15, 16, 48, 3) }
    fn c08_t_kmers_amino_k1_n2 [10] { kmers_iter!(Amino, 1, 2, 21, 2) }
    fn c08_t_kmers_amino_k9_n10 [10] { kmers_iter!(Amino, 9, 10, 32, 3) }
    fn c08_t_kmers_text_k8_n9 [10] { kmers_iter!(text::Dna, 8, 9, 24, 3) }
    fn c08_t_kmers_miupac_k12_n13 [10] { kmers_iter!(masked::Iupac, 12, 13, 38, 3) }

    fn c08_q_try_from_dna_k4 [10] { kmer_try_from!(Dna, 4, usize, 64, 2) }
    fn c08_q_try_from_dna_k32 [10] { kmer_try_from!(Dna, 32, usize, 96, 3) }
    fn c08_q_try_from_amino_k10 [10] { kmer_try_from!(Amino, 10, usize, 32, 3) }
    fn c08_q_try_from_dna_k32_u64 [10] { kmer_try_from!(Dna, 32, u64, 96, 3) }
    fn c08_q_try_from_dna_k33_u128 [10] { kmer_try_from!(Dna, 33, u128, 96, 3) }
    fn c08_q_try_from_dna_k64_u128 [10] { kmer_try_from!(Dna, 64, u128, 192, 6) }
    fn c08_t_try_from_iupac_k16 [10] { kmer_try_from!(Iupac, 16, usize, 48, 3) }
    fn c08_t_try_from_iupac_k32_u128 [10] { kmer_try_from!(Iupac, 32, u128, 64, 4) }
    fn c08_t_try_from_amino_k21_u128 [10] { kmer_try_from!(Amino, 21, u128, 42, 4) }
    fn c08_t_try_from_text_k8 [10] { kmer_try_from!(text::Dna, 8, usize, 24, 3) }
    fn c08_t_try_from_dna_k1 [10] { kmer_try_from!(Dna, 1, usize, 64, 2) }
    fn c08_t_try_from_dna_k31 [10] { kmer_try_from!(Dna, 31, usize, 96, 3) }

    fn c08_q_seq_from_kmer_dna_k2 [10] {
        // Seq::from(kmer) shows the same symbols (heap: with_capacity + push)
        let v = any_usize();
        assume(v < 16);
        let k = kmer::<Dna, 2>(v);
        let s: Seq<Dna> = k.into();
        assert!(s.len() == 2, "C08.seq_from_kmer.len");
        let i = any_usize();
        assume(i < 2);
        assert!(s.nth(i).to_bits() == isym(v as u128, 2, i), "C08.seq_from_kmer.symbols");
        reach!("end");
        core::mem::forget(s);
    }
    fn c08_q_try_from_owned_seq_dna_k4 [10] {
        // TryFrom<Seq> for Kmer
        let w = any_usize();
        let n = any_usize();
        assume(n >= 3 && n <= 5);
        let s = owned1::<Dna>(w, n);
        let r = Kmer::<Dna, 4>::try_from(s);
        if n == 4 {
            assert!(r.is_ok(), "C08.try_from_seq.right_length_refused");
            assert!(r.unwrap().bs == w & 0xff, "C08.try_from_seq.symbols");
        } else {
            assert!(r == Err(ParseBioError::MismatchedLength(4, n)), "C08.try_from_seq.wrong_length_must_be_error");
        }
        reach!(n == 4, "ok");
    }
    fn c08_q_display_dna_k4 [10] {
        // displays with the same symbols (Display -> String)
        let v = any_usize();
        assume(v < 256);
        let k = kmer::<Dna, 4>(v);
        let t = k.to_string();
        let bytes = t.as_bytes();
        assert!(bytes.len() == 4, "C08.display.one_char_per_symbol");
        let i = any_usize();
        assume(i < 4);
        assert!(bytes[i] == oracle::DNA.to_char[isym(v as u128, 2, i) as usize], "C08.display.char_i_is_symbol_i");
        reach!("end");
        core::mem::forget(t);
    }
    fn c08_q_display_amino_k3_u128 [10] {
        let v = any_u128();
        assume(v < (1 << 18));
        let k = kmer128::<Amino, 3>(v);
        let t = k.to_string();
        let bytes = t.as_bytes();
        assert!(bytes.len() == 3, "C08.display.one_char_per_symbol");
        let i = any_usize();
        assume(i < 3);
        let code = oracle::AMINO.from_bits[isym(v, 6, i) as usize] as usize;
        assert!(bytes[i] == oracle::AMINO.to_char[code], "C08.display.char_i_is_symbol_i");
        reach!("end");
        core::mem::forget(t);
    }
    fn c08_q_from_str_dna_k2 [10] {
        // Kmer::from_str: right length and valid text -> those symbols; otherwise an error, never a padded/truncated k-mer
        let b = any_u8();
        assume(b < 0x80);
        let buf = [b'G', b];
        let txt: &str = unsafe { core::str::from_utf8_unchecked(&buf) };
        let r = Kmer::<Dna, 2>::from_str(txt);
        let code = oracle::DNA.from_char[b as usize];
        reach!(r.is_ok(), "ok");
        match r {
            Ok(k) => {
                assert!(code != oracle::NONE, "C08.from_str.accepted_invalid_text");
                assert!(k.bs == 2 | ((code as usize) << 2), "C08.from_str.symbols");
            }
            Err(e) => {
                assert!(code == oracle::NONE, "C08.from_str.refused_valid_text");
                assert!(e == ParseBioError::UnrecognisedBase(b), "C08.from_str.error");
            }
        }
    }
    fn c08_q_from_str_wrong_length [10] {
        let r1 = Kmer::<Dna, 3>::from_str("AC");
        assert!(r1 == Err(ParseBioError::MismatchedLength(3, 2)), "C08.from_str.short_text_must_be_error");
        let r2 = Kmer::<Dna, 1>::from_str("AC");
        assert!(r2 == Err(ParseBioError::MismatchedLength(1, 2)), "C08.from_str.long_text_must_be_error");
        reach!("end");
    }
    // k-mers that fill their storage exactly: one character too many / too few is still MismatchedLength
    fn c08_q_from_str_too_long_text16_u128 [40] {
        let r = Kmer::<text::Dna, 16, u128>::from_str("ACGTACGTACGTACGTA");
        assert!(r == Err(ParseBioError::MismatchedLength(16, 17)), "C08.from_str.long_text_must_be_error");
        reach!("end");
    }
    fn c08_q_from_str_too_long_amino21_u128 [40] {
        let r = Kmer::<Amino, 21, u128>::from_str("ACDEFGHIKLMNPQRSTVWYAC");
        assert!(r == Err(ParseBioError::MismatchedLength(21, 22)), "C08.from_str.long_text_must_be_error");
        reach!("end");
    }
    fn c08_q_from_str_too_long_text8 [40] {
        let r = Kmer::<text::Dna, 8>::from_str("ACGTACGTA");
        assert!(r == Err(ParseBioError::MismatchedLength(8, 9)), "C08.from_str.long_text_must_be_error");
        let r = Kmer::<text::Dna, 8, u64>::from_str("ACGTACG");
        assert!(r == Err(ParseBioError::MismatchedLength(8, 7)), "C08.from_str.short_text_must_be_error");
        reach!("end");
    }
    fn c08_t_from_str_too_long_dna32 [70] {
        let r = Kmer::<Dna, 32>::from_str("ACGTACGTACGTACGTACGTACGTACGTACGTA");
        assert!(r == Err(ParseBioError::MismatchedLength(32, 33)), "C08.from_str.long_text_must_be_error");
        reach!("end");
    }
    fn c08_t_from_str_too_long_iupac32_u128 [70] {
        let r = Kmer::<Iupac, 32, u128>::from_str("ACGTRYSWKMBDHVNACGTRYSWKMBDHVNACG");
        assert!(r == Err(ParseBioError::MismatchedLength(32, 33)), "C08.from_str.long_text_must_be_error");
        reach!("end");
    }
    fn c08_t_from_str_too_long_dna64_u128 [70] {
        let r = Kmer::<Dna, 64, u128>::from_str("ACGTACGTACGTACGTACGTACGTACGTACGTACGTACGTACGTACGTACGTACGTACGTACGTA");
        assert!(r == Err(ParseBioError::MismatchedLength(64, 65)), "C08.from_str.long_text_must_be_error");
        reach!("end");
    }
    fn c08_q_kmer_macro [10] {
        // kmer! literal: concrete programs, symbols per the documented layout
        let k = kmer!("ACGT");
        assert!(k.bs == 0b11_10_01_00, "C08.kmer_macro.acgt");
        let k2 = kmer!("TTTTTTTTTTTTTTTTTTTTTTTTTTTTTTTT");
        assert!(k2.bs == usize::MAX, "C08.kmer_macro.t32");
        let k3 = kmer!("G", u64);
        assert!(k3.bs == 2, "C08.kmer_macro.g_u64");
        // u128 storage, literal longer than one word: 33 x C then G then T (35 symbols)
        let k4 = kmer!("CCCCCCCCCCCCCCCCCCCCCCCCCCCCCCCCCGT", u128);
        let want: u128 = 0x5555_5555_5555_5555u128 | (1u128 << 64) | (2u128 << 66) | (3u128 << 68);
        assert!(k4.bs == want, "C08.kmer_macro.u128_longer_than_a_word");
        reach!("end");
    }
}
