//! C11 — symbol, reverse, window and chunk iterators enumerate exactly the right items.
use crate::oracle::{self, bits_at, sym, Alpha};
use crate::pre::*;
use crate::vx::*;
use crate::{harnesses, reach};
use bio_seq::codec::{masked, text};
use bio_seq::prelude::*;

macro_rules! iter_fwd {
    ($A:ty, $al:expr, $N:expr, $W:expr, $maxn:expr) => {{
        let b = <$A as Codec>::BITS as usize;
        let w = any_words::<{ $W }>();
        let s = arr::<$A, { $N }, { $W }>(w);
        let (o, n) = (any_usize(), any_usize());
        assume(n <= $maxn && o <= $N - $maxn);
        let win = &s[o..o + n];
        let mut it = win.iter();
        let mut j = 0usize;
        while j <= $maxn {
            let x = it.next();
            if j < n {
                assert!(x.is_some(), "C11.iter.ended_early");
                assert!(x.unwrap().to_bits() == $al.from_bits[sym(&w, o * b, b, j) as usize] as u8, "C11.iter.item_j_is_symbol_j");
            } else {
                assert!(x.is_none(), "C11.iter.yields_past_end");
            }
            j += 1;
        }
        reach!(n == $maxn && (o * b) % 64 > 64 - $maxn * b, "full length, straddling");
        reach!(n == 0, "empty");
    }};
}

macro_rules! iter_rev {
    ($A:ty, $al:expr, $N:expr, $W:expr, $maxn:expr) => {{
        let b = <$A as Codec>::BITS as usize;
        let w = any_words::<{ $W }>();
        let s = arr::<$A, { $N }, { $W }>(w);
        let (o, n) = (any_usize(), any_usize());
        assume(n <= $maxn && o <= $N - $maxn);
        let win = &s[o..o + n];
        let mut it = win.rev_iter();
        let mut j = 0usize;
        while j <= $maxn {
            let x = it.next();
            if j < n {
                assert!(x.is_some(), "C11.rev_iter.ended_early");
                assert!(x.unwrap().to_bits() == $al.from_bits[sym(&w, o * b, b, n - 1 - j) as usize] as u8, "C11.rev_iter.item_j_is_symbol_n_1_j");
            } else {
                assert!(x.is_none(), "C11.rev_iter.yields_past_end");
            }
            j += 1;
        }
        reach!(n == $maxn, "full length");
    }};
}

/// a partly consumed iterator drained by a fold-based consumer ($mode 0: fold, 1: count, 2: last): the
/// remaining symbols, each exactly once, in order
macro_rules! iter_drain {
    ($A:ty, $al:expr, $N:expr, $W:expr, $maxn:expr, $rev:expr, $mode:expr) => {{
        let b = <$A as Codec>::BITS as usize;
        let w = any_words::<{ $W }>();
        let s = arr::<$A, { $N }, { $W }>(w);
        let (o, n, k) = (any_usize(), any_usize(), any_usize());
        assume(n <= $maxn && o <= $N - $maxn && k <= n);
        let win = &s[o..o + n];
        let code = |j: usize| $al.from_bits[sym(&w, o * b, b, if $rev { n - 1 - j } else { j }) as usize] as u8;
        let pack = |(c, a): (usize, u64), x: $A| (c + 1, a | ((x.to_bits() as u64 + 1) << (8 * c)));
        let (cnt, acc, last) = if $rev {
            let mut it = win.rev_iter();
            let mut j = 0usize;
            while j < $maxn {
                if j < k { it.next(); }
                j += 1;
            }
            match $mode {
                0 => { let (c, a) = it.fold((0usize, 0u64), pack); (c, a, None) }
                1 => (it.count(), 0, None),
                _ => (0, 0, it.last()),
            }
        } else {
            let mut it = win.iter();
            let mut j = 0usize;
            while j < $maxn {
                if j < k { it.next(); }
                j += 1;
            }
            match $mode {
                0 => { let (c, a) = it.fold((0usize, 0u64), pack); (c, a, None) }
                1 => (it.count(), 0, None),
                _ => (0, 0, it.last()),
            }
        };
        if $mode == 0 {
            let mut want: u64 = 0;
            let mut j = 0usize;
            while j < $maxn {
                if j >= k && j < n {
                    want |= (code(j) as u64 + 1) << (8 * (j - k));
                }
                j += 1;
            }
            assert!(cnt == n - k, "C11.drain.fold_visits_each_remaining_symbol_once");
            assert!(acc == want, "C11.drain.fold_items_in_order");
        } else if $mode == 1 {
            assert!(cnt == n - k, "C11.drain.count");
        } else if k < n {
            assert!(last.is_some() && last.unwrap().to_bits() == code(n - 1), "C11.drain.last");
        } else {
            assert!(last.is_none(), "C11.drain.last_of_exhausted");
        }
        reach!(k > 0 && k < n, "partly consumed");
        reach!(k == n && n > 0, "exhausted");
        reach!(k == 0 && n == $maxn, "fresh, full length");
    }};
}

/// windows(width) (step 1) / chunks(width) (step width) with symbolic width
macro_rules! chunked {
    ($A:ty, $al:expr, $N:expr, $W:expr, $maxn:expr, $is_windows:expr) => {{
        let b = <$A as Codec>::BITS as usize;
        let w = any_words::<{ $W }>();
        let s = arr::<$A, { $N }, { $W }>(w);
        let (o, n, width) = (any_usize(), any_usize(), any_usize());
        assume(n <= $maxn && o <= $N - $maxn && width >= 1 && width <= n + 2);
        let win = &s[o..o + n];
        let (count, step) = if $is_windows {
            (if width <= n { n - width + 1 } else { 0 }, 1)
        } else {
            (n / width, width)
        };
        let mut it = if $is_windows { win.windows(width) } else { win.chunks(width) };
        let t = any_usize();
        assume(t < width);
        let mut j = 0usize;
        while j <= $maxn {
            let x = it.next();
            if j < count {
                assert!(x.is_some(), "C11.chunked.ended_early");
                let c = x.unwrap();
                assert!(c.len() == width, "C11.chunked.item_width");
                assert!(c.nth(t).to_bits() == $al.from_bits[sym(&w, o * b, b, j * step + t) as usize] as u8, "C11.chunked.item_symbols");
            } else {
                assert!(x.is_none(), "C11.chunked.yields_past_end");
            }
            j += 1;
        }
        reach!(count >= 2 && width >= 2, "several wide items");
        reach!(width > n, "wider than the sequence");
        reach!(count > 0 && n % width != 0, "incomplete tail");
    }};
}

harnesses! {
    fn c11_q_iter_dna [10] { iter_fwd!(Dna, oracle::DNA, 64, 2, 6) }
    fn c11_q_iter_amino [10] { iter_fwd!(Amino, oracle::AMINO, 21, 2, 4) }
    fn c11_q_iter_miupac [10] { iter_fwd!(masked::Iupac, oracle::MIUPAC, 25, 2, 4) }
    fn c11_t_iter_iupac [10] { iter_fwd!(Iupac, oracle::IUPAC, 32, 2, 6) }
    fn c11_q_iter_text_raw [10] { iter_fwd!(text::Dna, oracle::TEXT_RAW, 16, 2, 2) }
    fn c11_q_rev_iter_text_raw [10] { iter_rev!(text::Dna, oracle::TEXT_RAW, 16, 2, 2) }
    fn c11_q_drain_fold_dna [10] { iter_drain!(Dna, oracle::DNA, 64, 2, 4, false, 0) }
    fn c11_q_drain_count_dna [10] { iter_drain!(Dna, oracle::DNA, 64, 2, 4, false, 1) }
    fn c11_t_drain_last_dna [10] { iter_drain!(Dna, oracle::DNA, 64, 2, 4, false, 2) }
    fn c11_t_drain_fold_amino [10] { iter_drain!(Amino, oracle::AMINO, 21, 2, 3, false, 0) }
    fn c11_q_drain_fold_rev_dna [10] { iter_drain!(Dna, oracle::DNA, 64, 2, 4, true, 0) }
    fn c11_t_drain_count_rev_dna [10] { iter_drain!(Dna, oracle::DNA, 64, 2, 4, true, 1) }
    fn c11_q_rev_iter_dna [10] { iter_rev!(Dna, oracle::DNA, 64, 2, 6) }
    fn c11_q_rev_iter_amino [10] { iter_rev!(Amino, oracle::AMINO, 21, 2, 4) }
    fn c11_t_rev_iter_miupac [10] { iter_rev!(masked::Iupac, oracle::MIUPAC, 25, 2, 4) }

    fn c11_q_windows_dna [10] { chunked!(Dna, oracle::DNA, 64, 2, 6, true) }
    fn c11_q_chunks_dna [10] { chunked!(Dna, oracle::DNA, 64, 2, 6, false) }
    fn c11_q_windows_amino [10] { chunked!(Amino, oracle::AMINO, 21, 2, 4, true) }
    fn c11_q_chunks_amino [10] { chunked!(Amino, oracle::AMINO, 21, 2, 4, false) }
    fn c11_q_windows_miupac [10] { chunked!(masked::Iupac, oracle::MIUPAC, 25, 2, 4, true) }
    fn c11_q_chunks_miupac [10] { chunked!(masked::Iupac, oracle::MIUPAC, 25, 2, 4, false) }
    fn c11_t_windows_iupac [10] { chunked!(Iupac, oracle::IUPAC, 32, 2, 6, true) }
    fn c11_t_chunks_iupac [10] { chunked!(Iupac, oracle::IUPAC, 32, 2, 6, false) }

    fn c11_q_chain_dna [10] {
        let w = any_words::<2>();
        let s = arr::<Dna, 64, 2>(w);
        let (o1, n1, o2, n2) = (any_usize(), any_usize(), any_usize(), any_usize());
        assume(n1 <= 3 && n2 <= 3 && o1 <= 61 && o2 <= 61);
        let (a, b) = (&s[o1..o1 + n1], &s[o2..o2 + n2]);
        let mut it = a.chain(b);
        let mut j = 0usize;
        while j <= 6 {
            let x = it.next();
            if j < n1 {
                assert!(x.map(|d| d.to_bits()) == Some(sym(&w, 2 * o1, 2, j)), "C11.chain.first_part");
            } else if j < n1 + n2 {
                assert!(x.map(|d| d.to_bits()) == Some(sym(&w, 2 * o2, 2, j - n1)), "C11.chain.second_part");
            } else {
                assert!(x.is_none(), "C11.chain.yields_past_end");
            }
            j += 1;
        }
        reach!(n1 == 3 && n2 == 3, "both full");
    }
    fn c11_q_collect_windows_to_vec [10] {
        // FromIterator<&SeqSlice> for Vec<Seq>: each window copied out as an owned sequence
        let w = any_words::<2>();
        let s = arr::<Dna, 64, 2>(w);
        let win = &s[30..33];
        let v: Vec<Seq<Dna>> = win.windows(2).collect();
        assert!(v.len() == 2, "C11.collect.count");
        let (j, t) = (any_usize(), any_usize());
        assume(j < 2 && t < 2);
        assert!(v[j].len() == 2, "C11.collect.item_width");
        assert!(v[j].nth(t).to_bits() == sym(&w, 60, 2, j + t), "C11.collect.item_symbols");
        reach!("end");
        core::mem::forget(v);
    }
    fn c11_q_into_iter_owned_dna [10] {
        // IntoIterator for &Seq (heap-backed)
        let wd = any_usize();
        let n = any_usize();
        assume(n <= 3);
        let s = owned1::<Dna>(wd, n);
        let mut j = 0usize;
        for x in &s {
            assert!(j < n, "C11.into_iter.too_many");
            assert!(x.to_bits() == sym(&[wd], 0, 2, j), "C11.into_iter.item");
            j += 1;
        }
        assert!(j == n, "C11.into_iter.count");
        reach!(n == 3, "three");
        core::mem::forget(s);
    }
}
