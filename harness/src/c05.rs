//! C05 — every codec's tables are mutually consistent and match the documented
//! alphabet. The solver decides each law for all 256 input bytes at once.

use crate::oracle::{self, Alpha, NONE};
use crate::vx::*;
use crate::{harnesses, reach};
use bio_seq::codec::{degenerate, masked, text};
use bio_seq::prelude::*;

/// laws over bit patterns: fallible decoder accepts exactly the documented
/// codes and alternatives, yields the documented symbol, and the unchecked
/// decoder agrees (and does not panic) wherever the fallible one succeeds
#[inline(always)]
pub fn law_bits<C: Codec>(al: &Alpha) {
    assert!(C::BITS == al.bits, "C05.bits.width");
    let b = any_u8();
    let want = al.from_bits[b as usize];
    let got = C::try_from_bits(b);
    reach!(got.is_some(), "some");
    reach!(got.is_none() || al.bits == 8, "none");
    match got {
        None => assert!(want == NONE, "C05.bits.refused_documented_code"),
        Some(x) => {
            assert!(want != NONE, "C05.bits.accepted_undocumented_pattern");
            let code = want as u8;
            assert!(x.to_bits() == code, "C05.bits.to_bits_is_canonical_code");
            assert!((x.to_bits() as u16) < (1u16 << C::BITS), "C05.bits.code_fits_width");
            assert!(x.to_char() as u32 == al.to_char[code as usize] as u32, "C05.bits.symbol_identity");
            let u = C::unsafe_from_bits(b);
            assert!(u == x, "C05.bits.unchecked_agrees");
        }
    }
}

/// laws over input bytes
#[inline(always)]
pub fn law_ascii<C: Codec>(al: &Alpha) {
    let c = any_u8();
    let want = al.from_char[c as usize];
    let got = C::try_from_ascii(c);
    reach!(got.is_some(), "some");
    reach!(got.is_none(), "none");
    match got {
        None => assert!(want == NONE, "C05.ascii.refused_documented_char"),
        Some(x) => {
            assert!(want != NONE, "C05.ascii.accepted_undocumented_byte");
            let code = want as u8;
            assert!(x.to_bits() == code, "C05.ascii.parses_to_documented_symbol");
            let ch = x.to_char();
            assert!(ch as u32 == al.to_char[code as usize] as u32, "C05.ascii.display_char");
            assert!(C::try_from_ascii(ch as u8) == Some(x), "C05.ascii.display_parses_back");
            assert!(C::try_from_bits(x.to_bits()) == Some(x), "C05.ascii.code_decodes_back");
        }
    }
}

/// unchecked ASCII decoder agrees with the fallible one (and does not panic)
/// wherever the latter succeeds
#[inline(always)]
pub fn law_ascii_unchecked<C: Codec>() {
    let c = any_u8();
    let got = C::try_from_ascii(c);
    assume(got.is_some());
    reach!("valid char");
    let u = C::unsafe_from_ascii(c);
    assert!(Some(u) == got, "C05.ascii.unchecked_agrees");
}

/// distinct symbols have distinct codes and display characters
#[inline(always)]
pub fn law_injective<C: Codec>() {
    let (b1, b2) = (any_u8(), any_u8());
    let (x, y) = (C::try_from_bits(b1), C::try_from_bits(b2));
    assume(x.is_some() && y.is_some());
    let (x, y) = (x.unwrap(), y.unwrap());
    reach!(x != y, "distinct");
    assert!((x == y) == (x.to_bits() == y.to_bits()), "C05.injective.code");
    assert!((x == y) == (x.to_char() == y.to_char()), "C05.injective.char");
}

/// `items()` is the documented symbol list, in order, each exactly once
#[inline(always)]
pub fn law_items<C: Codec>(order: &[u8]) {
    let mut n = 0usize;
    for x in C::items() {
        assert!(n < order.len(), "C05.items.too_many");
        assert!(x.to_bits() == order[n], "C05.items.order");
        n += 1;
    }
    assert!(n == order.len(), "C05.items.count");
    reach!("end");
}

const MIUPAC_ORDER: [u8; 32] = {
    // declaration order in codec/masked/iupac.rs: A C G T Y R W S K M D V H B N X, then the masked forms
    let sets: [u8; 16] = [8, 4, 2, 1, 5, 10, 9, 6, 3, 12, 11, 14, 13, 7, 15, 0];
    let mut o = [0u8; 32];
    let mut i = 0;
    while i < 16 {
        o[i] = oracle::miupac_code(sets[i], false);
        o[16 + i] = oracle::miupac_code(sets[i], true);
        i += 1;
    }
    o
};

harnesses! {
    // ---- Dna
    fn c05_q_dna_bits [2] { law_bits::<Dna>(&oracle::DNA); }
    fn c05_q_dna_ascii [2] { law_ascii::<Dna>(&oracle::DNA); }
    fn c05_q_dna_ascii_unchecked [2] { law_ascii_unchecked::<Dna>(); }
    fn c05_q_dna_injective [2] { law_injective::<Dna>(); }
    fn c05_q_dna_items [6] { law_items::<Dna>(&oracle::DNA.order[..4]); }
    fn c05_q_dna_order [2] {
        // documented: A < C < G < T as 0..3
        let (b1, b2) = (any_u8(), any_u8());
        assume(b1 < 4 && b2 < 4);
        let (x, y) = (Dna::try_from_bits(b1).unwrap(), Dna::try_from_bits(b2).unwrap());
        assert!((x < y) == (b1 < b2), "C05.dna.enum_order_is_code_order");
        assert!(x.cmp(&y) == b1.cmp(&b2), "C05.dna.enum_cmp");
        reach!("end");
    }
    fn c05_q_dna_comp [2] {
        let b = any_u8();
        assume(b < 4);
        let x = Dna::try_from_bits(b).unwrap();
        let c = x.to_comp();
        assert!(c.to_bits() == oracle::dna_comp(b), "C05.dna.complement_pairs");
        let mut y = x;
        y.comp();
        assert!(y == c, "C05.dna.comp_mut_eq_to_comp");
        assert!(c.to_comp() == x, "C05.dna.complement_involution");
        reach!("end");
    }
    // ---- Iupac
    fn c05_q_iupac_bits [2] { law_bits::<Iupac>(&oracle::IUPAC); }
    fn c05_q_iupac_ascii [2] { law_ascii::<Iupac>(&oracle::IUPAC); }
    fn c05_q_iupac_ascii_unchecked [2] { law_ascii_unchecked::<Iupac>(); }
    fn c05_q_iupac_injective [2] { law_injective::<Iupac>(); }
    fn c05_q_iupac_items [18] { law_items::<Iupac>(&oracle::IUPAC.order[..16]); }
    fn c05_q_iupac_comp [2] {
        let b = any_u8();
        assume(b < 16);
        let x = Iupac::try_from_bits(b).unwrap();
        let c = x.to_comp();
        assert!(c.to_bits() == oracle::iupac_comp(b), "C05.iupac.complement_is_memberwise");
        assert!(c.to_comp() == x, "C05.iupac.complement_involution");
        assert!(u8::from(x) == b, "C05.iupac.into_u8");
        reach!("end");
    }
    fn c05_q_iupac_from_dna [2] {
        let b = any_u8();
        assume(b < 4);
        let d = Dna::try_from_bits(b).unwrap();
        let i = Iupac::from(d);
        assert!(i.to_bits() == oracle::dna_to_iupac(b), "C05.iupac.from_dna_singleton");
        assert!(i.to_char() == d.to_char(), "C05.iupac.from_dna_same_letter");
        assert!(Iupac::from(d.to_comp()) == i.to_comp(), "C05.iupac.from_dna_commutes_with_comp");
        reach!("end");
    }
    // ---- Amino
    fn c05_q_amino_bits [2] { law_bits::<Amino>(&oracle::AMINO); }
    fn c05_q_amino_ascii [2] { law_ascii::<Amino>(&oracle::AMINO); }
    fn c05_q_amino_ascii_unchecked [2] { law_ascii_unchecked::<Amino>(); }
    fn c05_q_amino_injective [2] { law_injective::<Amino>(); }
    fn c05_q_amino_items [23] { law_items::<Amino>(&oracle::AMINO.order[..21]); }
    fn c05_q_amino_codons [2] {
        // amino codes are codons: every 6-bit pattern decodes to the NCBI-1 letter
        let b = any_u8();
        assume(b < 64);
        let x = Amino::try_from_bits(b);
        assert!(x.is_some(), "C05.amino.every_codon_decodes");
        assert!(x.unwrap().to_char() as u32 == oracle::NCBI1_BY_PACKED[b as usize] as u32, "C05.amino.codon_letter");
        assert!(u8::from(x.unwrap()) == x.unwrap().to_bits(), "C05.amino.into_u8");
        reach!("end");
    }
    // ---- text::Dna
    fn c05_q_text_bits [2] { law_bits::<text::Dna>(&oracle::TEXT); }
    fn c05_q_text_ascii [2] { law_ascii::<text::Dna>(&oracle::TEXT); }
    fn c05_q_text_ascii_unchecked [2] { law_ascii_unchecked::<text::Dna>(); }
    fn c05_q_text_injective [2] { law_injective::<text::Dna>(); }
    fn c05_q_text_items [7] { law_items::<text::Dna>(&oracle::TEXT.order[..5]); }
    // ---- masked::Dna
    fn c05_q_mdna_bits [2] { law_bits::<masked::Dna>(&oracle::MDNA); }
    fn c05_q_mdna_ascii [2] { law_ascii::<masked::Dna>(&oracle::MDNA); }
    fn c05_q_mdna_ascii_unchecked [2] { law_ascii_unchecked::<masked::Dna>(); }
    fn c05_q_mdna_injective [2] { law_injective::<masked::Dna>(); }
    fn c05_q_mdna_items [16] { law_items::<masked::Dna>(&oracle::MDNA.order[..14]); }
    fn c05_q_mdna_comp [2] {
        // documented: complement by reversing the 4-bit pattern; pairs A-T, C-G (and a-t, c-g)
        let b = any_u8();
        let x = masked::Dna::try_from_bits(b);
        assume(x.is_some());
        let x = x.unwrap();
        let c = x.to_comp();
        let want: u8 = match x.to_char() {
            'A' => b'T', 'T' => b'A', 'C' => b'G', 'G' => b'C',
            'a' => b't', 't' => b'a', 'c' => b'g', 'g' => b'c',
            'N' => b'N', 'n' => b'n',
            o => o as u8,
        };
        if matches!(x.to_char(), 'A'|'C'|'G'|'T'|'a'|'c'|'g'|'t'|'N'|'n') {
            assert!(c.to_char() as u32 == want as u32, "C05.mdna.complement_pairs");
        }
        assert!(c.to_comp().to_char() == x.to_char(), "C05.mdna.complement_involution");
        reach!("end");
    }
    // ---- masked::Iupac
    fn c05_q_miupac_bits [2] { law_bits::<masked::Iupac>(&oracle::MIUPAC); }
    fn c05_q_miupac_ascii [2] { law_ascii::<masked::Iupac>(&oracle::MIUPAC); }
    fn c05_q_miupac_ascii_unchecked [2] { law_ascii_unchecked::<masked::Iupac>(); }
    fn c05_q_miupac_injective [2] { law_injective::<masked::Iupac>(); }
    fn c05_q_miupac_items [34] { law_items::<masked::Iupac>(&MIUPAC_ORDER); }
    fn c05_q_miupac_comp [2] {
        let b = any_u8();
        assume(b < 32);
        let x = masked::Iupac::try_from_bits(b).unwrap();
        let mut c = x;
        c.comp();
        let set = oracle::miupac_set(b);
        assert!(oracle::miupac_set(c.to_bits()) == oracle::iupac_comp(set), "C05.miupac.complement_is_memberwise");
        assert!((c.to_bits() & 0b100) == (b & 0b100), "C05.miupac.complement_keeps_mask");
        let mut cc = c;
        cc.comp();
        assert!(cc == x, "C05.miupac.complement_involution");
        reach!("end");
    }
    // ---- degenerate::Dna
    fn c05_q_degen_bits [2] { law_bits::<degenerate::Dna>(&oracle::DEGEN); }
    fn c05_q_degen_ascii [2] { law_ascii::<degenerate::Dna>(&oracle::DEGEN); }
    fn c05_q_degen_ascii_unchecked [2] { law_ascii_unchecked::<degenerate::Dna>(); }
    fn c05_q_degen_injective [2] { law_injective::<degenerate::Dna>(); }
    fn c05_q_degen_comp [2] {
        let b = any_u8();
        assume(b < 2);
        let x = degenerate::Dna::try_from_bits(b).unwrap();
        let mut c = x;
        c.comp();
        // S = {C,G} and W = {A,T} are closed under complement
        assert!(c == x, "C05.degen.complement_identity");
        reach!("end");
    }
}
