//! C18 — serialization round trip (bincode; JSON is not applicable, see DESIGN).
use crate::oracle::{self, mask128, sym};
use crate::pre::*;
use crate::vx::*;
use crate::{harnesses, reach};
use bio_seq::prelude::*;

macro_rules! kmer_rt {
    ($mk:ident, $any:ident, $int:ty, $A:ty, $K:expr) => {{
        let v: $int = $any();
        assume(v as u128 <= mask128($K * (<$A as Codec>::BITS as usize)));
        let k = $mk::<$A, { $K }>(v);
        let bytes = bincode::serialize(&k).unwrap();
        let back: Kmer<$A, { $K }, $int> = bincode::deserialize(&bytes).unwrap();
        assert!(back == k, "C18.kmer.roundtrip_equal");
        assert!(back.bs == v, "C18.kmer.roundtrip_storage");
        reach!("end");
        core::mem::forget(bytes);
    }};
}

macro_rules! seq_rt {
    ($A:ty, $al:expr, $N:expr, $o:expr, $L:expr, $cap:expr) => {{
        let b = <$A as Codec>::BITS as usize;
        let w = any_words::<2>();
        let src = arr::<$A, { $N }, 2>(w);
        let s = owned_cap(&src, $o, $L, $cap);
        let bytes = bincode::serialize(&s).unwrap();
        let back: Seq<$A> = bincode::deserialize(&bytes).unwrap();
        assert!(back.len() == $L, "C18.seq.roundtrip_len");
        if $L > 0 {
            let i = any_usize();
            assume(i < $L);
            assert!(back.nth(i).to_bits() == $al.from_bits[sym(&w, $o * b, b, i) as usize] as u8, "C18.seq.roundtrip_symbols");
        }
        reach!("end");
        core::mem::forget(bytes);
        core::mem::forget(back);
        core::mem::forget(s);
    }};
}

harnesses! {
    fn c18_q_kmer_dna_k7 [10] { kmer_rt!(kmer, any_usize, usize, Dna, 7) }
    fn c18_q_kmer_dna_k32 [10] { kmer_rt!(kmer, any_usize, usize, Dna, 32) }
    fn c18_q_kmer_amino_k10 [10] { kmer_rt!(kmer, any_usize, usize, Amino, 10) }
    fn c18_q_kmer_dna_k32_u64 [10] { kmer_rt!(kmer64, any_u64, u64, Dna, 32) }
    fn c18_q_kmer_dna_k33_u128 [18] { kmer_rt!(kmer128, any_u128, u128, Dna, 33) }
    fn c18_t_kmer_dna_k1 [10] { kmer_rt!(kmer, any_usize, usize, Dna, 1) }
    fn c18_t_kmer_iupac_k16 [10] { kmer_rt!(kmer, any_usize, usize, Iupac, 16) }
    fn c18_t_kmer_dna_k64_u128 [18] { kmer_rt!(kmer128, any_u128, u128, Dna, 64) }
}
