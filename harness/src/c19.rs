//! C19 — cross-codec conversion and trimming preserve the underlying bases.
use crate::oracle::{self, sym, Alpha, NONE};
use crate::pre::*;
use crate::vx::*;
use crate::{harnesses, reach};
use bio_seq::codec::text;
use bio_seq::prelude::*;

/// trim_u8 on a CONCRETE byte string (symbolic bytes make the span itself symbolic and the
/// collecting parser then does not finish: 40 GB, see DESIGN 9.2); the real code is still
/// executed by the engine on these representative inputs and compared with the span oracle
macro_rules! trim_concrete {
    ($A:ty, $al:expr, $bytes:expr, $n:expr) => {{
        let bytes: [u8; $n] = *$bytes;
        let r = Seq::<$A>::trim_u8(&bytes);
        let ok = |c: u8| $al.from_char[c as usize] != NONE;
        let mut first = $n;
        let mut last = 0usize;
        let mut i = 0;
        while i < $n {
            if ok(bytes[i]) {
                if first == $n { first = i; }
                last = i + 1;
            }
            i += 1;
        }
        let mut bad: Option<u8> = None;
        let mut j = first;
        while j < last {
            if bad.is_none() && !ok(bytes[j]) { bad = Some(bytes[j]); }
            j += 1;
        }
        match r {
            Ok(s) => {
                assert!(bad.is_none(), "C19.trim.interior_bad_byte_accepted");
                let n = if first == $n { 0 } else { last - first };
                assert!(s.len() == n, "C19.trim.span_length");
                let mut k = 0;
                while k < n {
                    assert!(s.nth(k).to_bits() == $al.from_char[bytes[first + k] as usize] as u8, "C19.trim.symbols_of_the_span");
                    k += 1;
                }
                core::mem::forget(s);
            }
            Err(e) => {
                assert!(bad.is_some(), "C19.trim.refused_a_clean_span");
                assert!(e == ParseBioError::UnrecognisedBase(bad.unwrap()), "C19.trim.reports_first_interior_bad_byte");
            }
        }
        reach!("end");
    }};
}

/// Seq<B>::from(&SeqSlice<A>) for a window at an offset
macro_rules! convert {
    ($B:ty, $o:expr, $n:expr, $map:expr) => {{
        let w = any_words::<2>();
        let s = arr::<Dna, 64, 2>(w);
        let win = &s[$o..$o + $n];
        let r: Seq<$B> = win.into();
        assert!(r.len() == $n, "C19.convert.same_length");
        let i = any_usize();
        assume(i < $n);
        let d = sym(&w, 2 * $o, 2, i);
        assert!(r.nth(i).to_bits() == $map(d), "C19.convert.same_base");
        assert!(r.nth(i).to_char() as u8 == oracle::DNA.to_char[d as usize], "C19.convert.same_letter");
        reach!("end");
        core::mem::forget(r);
    }};
}

#[inline(always)]
fn dna_to_text(d: u8) -> u8 {
    oracle::DNA.to_char[d as usize]
}

harnesses! {
    // ---- symbol maps, exhaustive
    fn c19_q_symbol_maps [10] {
        let d = any_u8();
        assume(d < 4);
        let x = Dna::try_from_bits(d).unwrap();
        let t = text::Dna::from(x);
        assert!(t.to_bits() == oracle::DNA.to_char[d as usize], "C19.map.dna_to_text");
        assert!(t.to_char() == x.to_char(), "C19.map.dna_to_text_letter");
        assert!(Dna::try_from(t) == Ok(x), "C19.map.text_back_to_dna");
        assert!(Iupac::from(x).to_char() == x.to_char(), "C19.map.dna_to_iupac_letter");
        reach!("end");
    }
    fn c19_q_text_to_dna_all_bytes [10] {
        // converting text bases back to DNA succeeds exactly for A, C, G, T
        let b = any_u8();
        let t = text::Dna::unsafe_from_bits(b);
        let r = Dna::try_from(t);
        let want = oracle::DNA.from_char[b as usize];
        reach!(r.is_ok(), "ok");
        reach!(b == b'N', "N");
        match r {
            Ok(x) => {
                assert!(want != NONE, "C19.map.text_to_dna_accepted_non_base");
                assert!(x.to_bits() == want as u8, "C19.map.text_to_dna_base");
            }
            Err(e) => {
                assert!(want == NONE, "C19.map.text_to_dna_refused_base");
                assert!(e == ParseBioError::UnrecognisedBase(b), "C19.map.text_to_dna_error_byte");
            }
        }
    }
    // ---- sequence conversion
    fn c19_q_to_iupac_o31_n2 [10] { convert!(Iupac, 31, 2, oracle::dna_to_iupac) }
    fn c19_q_to_text_o5_n2 [10] { convert!(text::Dna, 5, 2, dna_to_text) }
    fn c19_t_to_iupac_o0_n3 [10] { convert!(Iupac, 0, 3, oracle::dna_to_iupac) }
    fn c19_q_to_iupac_empty [10] {
        let w = any_words::<2>();
        let s = arr::<Dna, 64, 2>(w);
        let r: Seq<Iupac> = (&s[7..7]).into();
        assert!(r.len() == 0, "C19.convert.empty");
        reach!("end");
    }
    fn c19_q_array_to_iupac_n2 [10] {
        // From<&SeqArray> / From<SeqArray>
        let w = any_words::<1>();
        let a = arr::<Dna, 2, 1>(w);
        let r: Seq<Iupac> = (&a).into();
        assert!(r.len() == 2, "C19.convert.array_len");
        assert!(r.nth(0).to_bits() == oracle::dna_to_iupac(sym(&w, 0, 2, 0)) && r.nth(1).to_bits() == oracle::dna_to_iupac(sym(&w, 0, 2, 1)), "C19.convert.array_symbols");
        reach!("end");
        core::mem::forget(r);
    }
    // ---- trimming: concrete representative inputs (not a universal claim)
    fn c19_q_trim_dna_padded [10] { trim_concrete!(Dna, oracle::DNA, b"NACNN", 5) }
    fn c19_q_trim_dna_lower_flanks [10] { trim_concrete!(Dna, oracle::DNA, b"aGt", 3) }
    fn c19_q_trim_dna_lower_only [10] { trim_concrete!(Dna, oracle::DNA, b"ac", 2) }
    fn c19_q_trim_dna_interior_bad [10] { trim_concrete!(Dna, oracle::DNA, b"xA-Gx", 5) }
    fn c19_q_trim_dna_all_bad [10] { trim_concrete!(Dna, oracle::DNA, b"nx7 ", 4) }
    fn c19_t_trim_iupac_lower_flanks [10] { trim_concrete!(Iupac, oracle::IUPAC, b"nnAC-Nn", 7) }
    fn c19_t_trim_text_padded [12] { trim_concrete!(text::Dna, oracle::TEXT, b"xxANGx", 6) }
    // bytes that are not UTF-8 are ordinary unacceptable bytes: trimmed at the ends, errors in the interior
    fn c19_q_trim_dna_non_utf8_prefix [10] { trim_concrete!(Dna, oracle::DNA, b"\xff\xfeAC", 4) }
    fn c19_q_trim_dna_non_utf8_suffix [10] { trim_concrete!(Dna, oracle::DNA, b"GT\x80", 3) }
    fn c19_q_trim_dna_non_utf8_all_bad [10] { trim_concrete!(Dna, oracle::DNA, b"\xff\xc0", 2) }
    fn c19_q_trim_dna_non_utf8_interior [10] { trim_concrete!(Dna, oracle::DNA, b"A\xc3G", 3) }
    fn c19_q_trim_dna_two_interior_bad [10] { trim_concrete!(Dna, oracle::DNA, b"AxNG", 4) }
    fn c19_q_to_text_o30_n9 [12] { convert!(text::Dna, 30, 9, dna_to_text) }
    fn c19_t_to_iupac_o30_n17 [20] { convert!(Iupac, 30, 17, oracle::dna_to_iupac) }
    fn c19_q_trim_dna_empty [10] { let r = Seq::<Dna>::trim_u8(&[]); assert!(r.is_ok() && r.unwrap().len() == 0, "C19.trim.empty"); reach!("end"); }
}
