//! C12 — IUPAC sequences behave as per-position nucleotide sets under |, & and contains.
use crate::oracle::{self, sym, Alpha};
use crate::pre::*;
use crate::vx::*;
use crate::{harnesses, reach};
use bio_seq::prelude::*;

/// borrowed operands at independent offsets (concrete shape, symbolic content)
macro_rules! bitop {
    ($x:expr, $y:expr, $n:expr, $or:expr) => {{
        let w = any_words::<2>();
        let s = arr::<Iupac, 32, 2>(w);
        let (a, b) = (&s[$x..$x + $n], &s[$y..$y + $n]);
        let r: Seq<Iupac> = if $or { a | b } else { a & b };
        assert!(r.len() == $n, "C12.op.len");
        let i = any_usize();
        assume(i < $n);
        let (ca, cb) = (sym(&w, 4 * $x, 4, i), sym(&w, 4 * $y, 4, i));
        let want = if $or { ca | cb } else { ca & cb };
        assert!(r.nth(i).to_bits() == want, "C12.op.position_is_union_or_intersection");
        // operands untouched
        assert!(a.nth(i).to_bits() == ca && b.nth(i).to_bits() == cb, "C12.op.operands_untouched");
        reach!("end");
        core::mem::forget(r);
    }};
}

/// owned operands: Seq::bit_or / bit_and
macro_rules! owned_bitop {
    ($x:expr, $y:expr, $n:expr, $or:expr) => {{
        let w = any_words::<2>();
        let s = arr::<Iupac, 32, 2>(w);
        let a = owned_cap(&s, $x, $n, $n);
        let b = owned_cap(&s, $y, $n, $n);
        let r: Seq<Iupac> = if $or { a.bit_or(b) } else { a.bit_and(b) };
        assert!(r.len() == $n, "C12.owned_op.len");
        let i = any_usize();
        assume(i < $n);
        let (ca, cb) = (sym(&w, 4 * $x, 4, i), sym(&w, 4 * $y, 4, i));
        let want = if $or { ca | cb } else { ca & cb };
        assert!(r.nth(i).to_bits() == want, "C12.owned_op.position_is_union_or_intersection");
        reach!("end");
        core::mem::forget(r);
    }};
}

/// owned operands that fill their last storage word exactly (16 symbols): each operand is one typed word.
/// Holds at unwind 2 in about 30 s; at the first attempt's unwind 20 it gave no verdict after 20 min / 6.8 GB.
macro_rules! owned_bitop_word {
    ($or:expr) => {{
        let (x, y) = (any_usize(), any_usize());
        let a = owned1::<Iupac>(x, 16);
        let b = owned1::<Iupac>(y, 16);
        let r: Seq<Iupac> = if $or { a.bit_or(b) } else { a.bit_and(b) };
        assert!(r.len() == 16, "C12.owned_op.len");
        let i = any_usize();
        assume(i < 16);
        let (ca, cb) = (((x >> (4 * i)) & 15) as u8, ((y >> (4 * i)) & 15) as u8);
        let want = if $or { ca | cb } else { ca & cb };
        assert!(r.nth(i).to_bits() == want, "C12.owned_op.position_is_union_or_intersection");
        reach!(i == 15, "last position");
        core::mem::forget(r);
    }};
}

/// pattern.contains(arg): equal length and position-wise subset
macro_rules! contains {
    ($x:expr, $n:expr, $y:expr, $m:expr, $via:expr) => {{
        let w = any_words::<2>();
        let s = arr::<Iupac, 32, 2>(w);
        let pat = &s[$x..$x + $n];
        let arg = &s[$y..$y + $m];
        let got = if $via == 0 {
            pat.contains(arg)
        } else {
            let own: Seq<Iupac> = owned_cap(&s, $x, $n, $n);
            let g = own.contains(arg);
            core::mem::forget(own);
            g
        };
        let mut want = $n == $m;
        if want {
            let mut i = 0;
            while i < $n {
                let (p, a) = (sym(&w, 4 * $x, 4, i), sym(&w, 4 * $y, 4, i));
                want = want && (a & p) == a;
                i += 1;
            }
        }
        reach!(got || $n != $m, "contained");
        reach!(!got, "not contained");
        assert!(got == want, "C12.contains.iff_equal_length_and_subset_everywhere");
    }};
}

harnesses! {
    fn c12_q_symbol_union_intersection [10] {
        // all 256 symbol pairs: the decoded symbol of a|b / a&b is the IUPAC letter of the union / intersection
        let (a, b) = (any_u8(), any_u8());
        assume(a < 16 && b < 16);
        let (x, y) = (Iupac::try_from_bits(a).unwrap(), Iupac::try_from_bits(b).unwrap());
        assert!(x.to_bits() == a && y.to_bits() == b, "C12.symbol.code_is_set");
        let u = Iupac::try_from_bits(a | b).unwrap();
        let n = Iupac::try_from_bits(a & b).unwrap();
        assert!(u.to_char() as u8 == oracle::IUPAC.to_char[(a | b) as usize], "C12.symbol.union_letter");
        assert!(n.to_char() as u8 == oracle::IUPAC.to_char[(a & b) as usize], "C12.symbol.intersection_letter");
        if a & b == 0 {
            assert!(n.to_char() == '-', "C12.symbol.empty_intersection_is_gap");
        }
        // complement complements each member
        assert!(u.to_comp().to_bits() == oracle::iupac_comp(a) | oracle::iupac_comp(b), "C12.symbol.complement_distributes_over_union");
        reach!(a & b == 0 && a != 0 && b != 0, "disjoint");
    }
    fn c12_q_or_15_7_n1 [10] { bitop!(15, 7, 1, true) }
    fn c12_q_and_0_4_n1 [10] { bitop!(0, 4, 1, false) }
    fn c12_q_contains_15_1_1_1 [10] { contains!(15, 1, 1, 1, 0) }
    fn c12_q_contains_owned_1_1_9_1 [10] { contains!(1, 1, 9, 1, 1) }
    // c12_x_*: written and compile-checked but in no tier - each needs 20-40 GB and 20-60 minutes
    // (per-bit remainder loop of bitvec's op-assign on heap bit-vectors); `c12_t_and_15_1_n2` is the one
    // two-symbol borrowed case kept in the thorough tier (measured: 2208 s incl. calibration, 29.8 GB)
    fn c12_x_or_0_4_n2 [10] { bitop!(0, 4, 2, true) }
    fn c12_t_and_15_1_n2 [10] { bitop!(15, 1, 2, false) }
    fn c12_x_or_15_7_n3 [10] { bitop!(15, 7, 3, true) }
    fn c12_x_and_0_15_n3 [10] { bitop!(0, 15, 3, false) }
    fn c12_x_or_1_1_n3 [10] { bitop!(1, 1, 3, true) }
    fn c12_x_and_14_3_n4 [10] { bitop!(14, 3, 4, false) }
    fn c12_t_empty_ops [10] {
        let w = any_words::<2>();
        let s = arr::<Iupac, 32, 2>(w);
        let r = &s[3..3] | &s[9..9];
        assert!(r.len() == 0, "C12.op.empty");
        assert!(s[3..3].contains(&s[20..20]), "C12.contains.empty_contains_empty");
        reach!("end");
    }
    fn c12_q_owned_or_1_9_n2 [10] { owned_bitop!(1, 9, 2, true) }
    fn c12_q_owned_and_15_0_n2 [10] { owned_bitop!(15, 0, 2, false) }
    fn c12_q_owned_or_word [10] { owned_bitop_word!(true) }
    fn c12_q_owned_and_word [10] { owned_bitop_word!(false) }

    fn c12_x_contains_0_2_5_2 [10] { contains!(0, 2, 5, 2, 0) }
    fn c12_x_contains_15_2_1_2 [10] { contains!(15, 2, 1, 2, 0) }
    fn c12_q_contains_len_mismatch [10] { contains!(0, 2, 5, 3, 0) }
    fn c12_x_contains_owned_1_2_9_2 [10] { contains!(1, 2, 9, 2, 1) }
    fn c12_x_contains_3_3_14_3 [10] { contains!(3, 3, 14, 3, 0) }
    fn c12_t_contains_len_mismatch_shorter [10] { contains!(4, 3, 9, 2, 0) }
    fn c12_x_contains_owned_15_3_0_3 [10] { contains!(15, 3, 0, 3, 1) }
}
