//! C06 — editing an owned sequence behaves like editing a list of symbols.
//! One step from an arbitrary valid state (owned sequence with symbolic
//! content and spare capacity), arguments = windows at independent offsets.
use crate::oracle::{self, sym, Alpha};
use crate::pre::*;
use crate::vx::*;
use crate::{harnesses, reach};
use bio_seq::codec::masked;
use bio_seq::prelude::*;
use core::ops::Bound;

macro_rules! setup {
    ($A:ty, $N:expr, $o:expr, $L:expr, $cap:expr, $w:ident, $src:ident, $s:ident) => {
        let $w = any_words::<2>();
        let $src = arr::<$A, { $N }, 2>($w);
        #[allow(unused_mut)]
        let mut $s = owned_cap(&$src, $o, $L, $cap);
    };
}

/// expected symbol code: old symbol i of the state / symbol j of the argument window
macro_rules! old {
    ($A:ty, $al:expr, $w:ident, $o:expr, $i:expr) => {
        $al.from_bits[sym(&$w, $o * (<$A as Codec>::BITS as usize), <$A as Codec>::BITS as usize, $i) as usize] as u8
    };
}

macro_rules! append {
    ($A:ty, $al:expr, $N:expr, $o:expr, $L:expr, $ao:expr, $m:expr) => {{
        setup!($A, $N, $o, $L, $L + $m, w, src, s);
        s.append(&src[$ao..$ao + $m]);
        assert!(s.len() == $L + $m, "C06.append.len");
        let i = any_usize();
        assume(i < $L + $m);
        let want = if i < $L { old!($A, $al, w, $o, i) } else { old!($A, $al, w, $ao, i - $L) };
        assert!(s.nth(i).to_bits() == want, "C06.append.list_model");
        reach!("end");
        core::mem::forget(s);
    }};
}

macro_rules! prepend {
    ($A:ty, $al:expr, $N:expr, $o:expr, $L:expr, $ao:expr, $m:expr) => {{
        setup!($A, $N, $o, $L, $L, w, src, s);
        s.prepend(&src[$ao..$ao + $m]);
        assert!(s.len() == $L + $m, "C06.prepend.len");
        let i = any_usize();
        assume(i < $L + $m);
        let want = if i < $m { old!($A, $al, w, $ao, i) } else { old!($A, $al, w, $o, i - $m) };
        assert!(s.nth(i).to_bits() == want, "C06.prepend.list_model");
        reach!("end");
        core::mem::forget(s);
    }};
}

macro_rules! insert {
    ($A:ty, $al:expr, $N:expr, $o:expr, $L:expr, $idx:expr, $ao:expr, $m:expr) => {{
        setup!($A, $N, $o, $L, $L, w, src, s);
        s.insert($idx, &src[$ao..$ao + $m]);
        assert!(s.len() == $L + $m, "C06.insert.len");
        let i = any_usize();
        assume(i < $L + $m);
        let want = if i < $idx {
            old!($A, $al, w, $o, i)
        } else if i < $idx + $m {
            old!($A, $al, w, $ao, i - $idx)
        } else {
            old!($A, $al, w, $o, i - $m)
        };
        assert!(s.nth(i).to_bits() == want, "C06.insert.list_model");
        reach!("end");
        core::mem::forget(s);
    }};
}

macro_rules! remove {
    ($A:ty, $al:expr, $N:expr, $o:expr, $L:expr, $range:expr, $s0:expr, $e0:expr) => {{
        setup!($A, $N, $o, $L, $L, w, src, s);
        s.remove($range);
        assert!(s.len() == $L - ($e0 - $s0), "C06.remove.len");
        if $L - ($e0 - $s0) > 0 {
            let i = any_usize();
            assume(i < $L - ($e0 - $s0));
            let want = if i < $s0 { old!($A, $al, w, $o, i) } else { old!($A, $al, w, $o, i + ($e0 - $s0)) };
            assert!(s.nth(i).to_bits() == want, "C06.remove.list_model");
        }
        reach!("end");
        core::mem::forget(s);
    }};
}

harnesses! {
    // ---- append / prepend / insert: argument window at an independent offset
    fn c06_q_append_dna [10] { append!(Dna, oracle::DNA, 64, 3, 4, 30, 3) }
    fn c06_q_append_dna_to_empty [10] { append!(Dna, oracle::DNA, 64, 0, 0, 31, 2) }
    fn c06_q_append_dna_empty_arg [10] { append!(Dna, oracle::DNA, 64, 5, 3, 9, 0) }
    fn c06_q_append_miupac_straddle [10] { append!(masked::Iupac, oracle::MIUPAC, 25, 0, 12, 12, 2) }
    fn c06_t_append_amino [10] { append!(Amino, oracle::AMINO, 21, 1, 2, 10, 2) }
    fn c06_t_append_dna_l31_m3 [10] { append!(Dna, oracle::DNA, 64, 0, 31, 40, 3) }
    fn c06_q_prepend_dna [10] { prepend!(Dna, oracle::DNA, 64, 3, 4, 30, 3) }
    fn c06_t_prepend_amino [10] { prepend!(Amino, oracle::AMINO, 21, 1, 2, 10, 2) }
    fn c06_t_prepend_dna_to_empty [10] { prepend!(Dna, oracle::DNA, 64, 0, 0, 31, 2) }
    fn c06_q_insert_dna_mid [10] { insert!(Dna, oracle::DNA, 64, 3, 4, 2, 30, 3) }
    fn c06_q_insert_dna_front [10] { insert!(Dna, oracle::DNA, 64, 3, 4, 0, 30, 2) }
    fn c06_q_insert_dna_end [10] { insert!(Dna, oracle::DNA, 64, 3, 4, 4, 30, 2) }
    fn c06_t_insert_amino_mid [10] { insert!(Amino, oracle::AMINO, 21, 0, 3, 1, 10, 2) }
    fn c06_t_insert_miupac_mid [10] { insert!(masked::Iupac, oracle::MIUPAC, 25, 0, 3, 2, 12, 1) }
    fn c06_q_insert_past_end_xp [10] {
        setup!(Dna, 64, 3, 4, 4, w, src, s);
        reach!("before call");
        s.insert(5, &src[30..32]);
        crate::must_not_return!("C06.insert.index_past_end_accepted");
    }
    // ---- remove: every RangeBounds form
    fn c06_q_remove_range [10] { remove!(Dna, oracle::DNA, 64, 3, 6, 2..5, 2, 5) }
    fn c06_q_remove_incl [10] { remove!(Dna, oracle::DNA, 64, 3, 6, 2..=4, 2, 5) }
    fn c06_q_remove_to [10] { remove!(Dna, oracle::DNA, 64, 3, 6, ..2, 0, 2) }
    fn c06_q_remove_from [10] { remove!(Dna, oracle::DNA, 64, 3, 6, 4.., 4, 6) }
    fn c06_q_remove_full [10] { remove!(Dna, oracle::DNA, 64, 3, 6, .., 0, 6) }
    fn c06_q_remove_toincl [10] { remove!(Dna, oracle::DNA, 64, 3, 6, ..=2, 0, 3) }
    fn c06_q_remove_excl_start [10] { remove!(Dna, oracle::DNA, 64, 3, 6, (Bound::Excluded(1), Bound::Included(3)), 2, 4) }
    fn c06_t_remove_empty_range [10] { remove!(Dna, oracle::DNA, 64, 3, 6, 3..3, 3, 3) }
    fn c06_t_remove_amino [10] { remove!(Amino, oracle::AMINO, 21, 9, 4, 1..3, 1, 3) }
    fn c06_t_remove_miupac [10] { remove!(masked::Iupac, oracle::MIUPAC, 25, 11, 4, 1..2, 1, 2) }
    fn c06_t_remove_dna_l34 [10] { remove!(Dna, oracle::DNA, 64, 0, 34, 30..33, 30, 33) }
    // a removed region of exactly one storage word (32 Dna / 16 Iupac symbols) that does not start on a word boundary
    fn c06_q_remove_dna_one_word_unaligned [70] { remove!(Dna, oracle::DNA, 64, 3, 40, 5..37, 5, 37) }
    fn c06_t_remove_iupac_one_word_unaligned [70] { remove!(Iupac, oracle::IUPAC, 32, 1, 20, 3..19, 3, 19) }
    // ---- truncate / clear / extend
    fn c06_q_truncate [10] {
        setup!(Dna, 64, 3, 6, 6, w, src, s);
        let k = any_usize();
        assume(k <= 8);
        s.truncate(k);
        let n = if k < 6 { k } else { 6 };
        assert!(s.len() == n, "C06.truncate.len");
        let i = any_usize();
        assume(i < n);
        assert!(s.nth(i).to_bits() == old!(Dna, oracle::DNA, w, 3, i), "C06.truncate.list_model");
        reach!(k == 7, "longer than the sequence");
        reach!(k == 2, "shorter");
        core::mem::forget(s);
    }
    fn c06_q_clear_then_push [10] {
        setup!(Dna, 64, 3, 6, 6, w, src, s);
        s.clear();
        assert!(s.len() == 0 && s.is_empty(), "C06.clear.len");
        let x = Dna::try_from_bits(any_u8() & 3).unwrap();
        s.push(x);
        assert!(s.len() == 1 && s.nth(0) == x, "C06.clear.then_push");
        reach!("end");
        core::mem::forget(s);
    }
    fn c06_q_extend2 [10] {
        setup!(Dna, 64, 3, 3, 5, w, src, s);
        let (x, y) = (Dna::try_from_bits(any_u8() & 3).unwrap(), Dna::try_from_bits(any_u8() & 3).unwrap());
        s.extend([x, y]);
        assert!(s.len() == 5, "C06.extend.len");
        let i = any_usize();
        assume(i < 5);
        let want = if i < 3 { old!(Dna, oracle::DNA, w, 3, i) } else if i == 3 { x.to_bits() } else { y.to_bits() };
        assert!(s.nth(i).to_bits() == want, "C06.extend.list_model");
        reach!("end");
        core::mem::forget(s);
    }
    fn c06_q_extend_filtered [10] {
        // extend from an iterator whose size hint (upper bound 3) exceeds what it yields (2)
        setup!(Dna, 64, 3, 1, 4, w, src, s);
        let (x, y) = (Dna::try_from_bits(any_u8() & 3).unwrap(), Dna::try_from_bits(any_u8() & 3).unwrap());
        s.extend([x, Dna::G, y].into_iter().enumerate().filter(|(i, _)| *i != 1).map(|(_, d)| d));
        assert!(s.len() == 3, "C06.extend.len_is_number_of_items_yielded");
        let i = any_usize();
        assume(i < 3);
        let want = if i < 1 { old!(Dna, oracle::DNA, w, 3, i) } else if i == 1 { x.to_bits() } else { y.to_bits() };
        assert!(s.nth(i).to_bits() == want, "C06.extend.list_model");
        reach!("end");
        core::mem::forget(s);
    }
    fn c06_q_remove_prefix_then_clone [10] {
        // a clone taken after a prefix removal has the remaining symbols
        setup!(Dna, 64, 3, 5, 5, w, src, s);
        s.remove(..2);
        let c = s.clone();
        assert!(c.len() == 3 && s.len() == 3, "C06.remove.len");
        let i = any_usize();
        assume(i < 3);
        assert!(c.nth(i).to_bits() == old!(Dna, oracle::DNA, w, 3, i + 2), "C06.clone.after_prefix_removal");
        assert!(s.nth(i).to_bits() == old!(Dna, oracle::DNA, w, 3, i + 2), "C06.remove.list_model");
        reach!("end");
        core::mem::forget(s);
        core::mem::forget(c);
    }
    // ---- copies taken before an edit keep their content
    fn c06_q_clone_then_edit [10] {
        setup!(Dna, 64, 3, 4, 6, w, src, s);
        let c = s.clone();
        let x = Dna::try_from_bits(any_u8() & 3).unwrap();
        s.push(x);
        s.truncate(1);
        assert!(c.len() == 4, "C06.clone.len_kept");
        let i = any_usize();
        assume(i < 4);
        assert!(c.nth(i).to_bits() == old!(Dna, oracle::DNA, w, 3, i), "C06.clone.content_kept_after_edit_of_original");
        assert!(s.len() == 1 && s.nth(0).to_bits() == old!(Dna, oracle::DNA, w, 3, 0), "C06.clone.original_edited");
        reach!("end");
        core::mem::forget(s);
        core::mem::forget(c);
    }
    fn c06_q_to_owned_then_edit [10] {
        setup!(Dna, 64, 3, 4, 4, w, src, s);
        let c: Seq<Dna> = s[1..3].to_owned();
        s.remove(0..2);
        assert!(c.len() == 2, "C06.to_owned.len_kept");
        let i = any_usize();
        assume(i < 2);
        assert!(c.nth(i).to_bits() == old!(Dna, oracle::DNA, w, 3, i + 1), "C06.to_owned.content_kept_after_edit_of_original");
        reach!("end");
        core::mem::forget(s);
        core::mem::forget(c);
    }
    // ---- two-step compositions (cross-check of the single-step induction)
    fn c06_q_remove_then_insert [10] {
        setup!(Dna, 64, 3, 5, 5, w, src, s);
        s.remove(1..3);
        s.insert(1, &src[40..42]);
        assert!(s.len() == 5, "C06.compose.len");
        let i = any_usize();
        assume(i < 5);
        let want = if i < 1 { old!(Dna, oracle::DNA, w, 3, i) } else if i < 3 { old!(Dna, oracle::DNA, w, 40, i - 1) } else { old!(Dna, oracle::DNA, w, 3, i) };
        assert!(s.nth(i).to_bits() == want, "C06.compose.remove_then_insert");
        reach!("end");
        core::mem::forget(s);
    }
    fn c06_t_truncate_then_append [10] {
        setup!(Dna, 64, 3, 5, 5, w, src, s);
        s.truncate(2);
        s.append(&src[31..34]);
        assert!(s.len() == 5, "C06.compose.len");
        let i = any_usize();
        assume(i < 5);
        let want = if i < 2 { old!(Dna, oracle::DNA, w, 3, i) } else { old!(Dna, oracle::DNA, w, 31, i - 2) };
        assert!(s.nth(i).to_bits() == want, "C06.compose.truncate_then_append");
        reach!("end");
        core::mem::forget(s);
    }
}
