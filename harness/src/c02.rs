//! C02 — equality and hashing depend only on content, for every sequence type
//! and every slice offset.
use crate::oracle::{self, bits_at, mask128, sym};
use crate::pre::*;
use crate::vx::*;
use crate::{harnesses, reach};
use bio_seq::codec::{masked, text};
use bio_seq::prelude::*;
use core::hash::{Hash, Hasher};

/// Recording hasher: logs every byte a value feeds to `Hasher`.
pub struct Rec {
    pub log: [u8; 96],
    pub n: usize,
}
impl Rec {
    pub fn new() -> Self {
        Rec { log: [0; 96], n: 0 }
    }
    #[inline(always)]
    fn put(&mut self, b: u8) {
        if self.n < 96 {
            self.log[self.n] = b;
        }
        self.n += 1;
    }
}
impl Hasher for Rec {
    fn finish(&self) -> u64 {
        self.n as u64
    }
    fn write(&mut self, bytes: &[u8]) {
        for b in bytes {
            self.put(*b);
        }
    }
    fn write_u8(&mut self, b: u8) {
        self.put(b);
    }
    fn write_usize(&mut self, v: usize) {
        let b = v.to_le_bytes();
        self.put(b[0]);
        self.put(b[1]);
        self.put(b[2]);
        self.put(b[3]);
        self.put(b[4]);
        self.put(b[5]);
        self.put(b[6]);
        self.put(b[7]);
    }
}

#[inline(always)]
fn same_stream(a: &Rec, b: &Rec) -> bool {
    if a.n != b.n {
        return false;
    }
    let i = any_usize();
    assume(i < 96);
    // for all i (symbolic): equal bytes at every logged position
    !(i < a.n) || a.log[i] == b.log[i]
}

#[inline(always)]
fn stream_of<T: Hash + ?Sized>(t: &T) -> Rec {
    let mut r = Rec::new();
    t.hash(&mut r);
    r
}

/// equal windows feed identical hasher input; unequal lengths feed different input
#[inline(always)]
pub fn hash_windows<A: Codec, const N: usize, const W: usize>(n: usize) {
    let b = A::BITS as usize;
    let w = any_words::<W>();
    let s = arr::<A, N, W>(w);
    let (x, y) = (any_usize(), any_usize());
    assume(x <= N - n - 1 && y <= N - n - 1);
    let (sx, sy) = (&s[x..x + n], &s[y..y + n]);
    let same = n == 0 || bits_at(&w, x * b, n * b) == bits_at(&w, y * b, n * b);
    let (hx, hy) = (stream_of(sx), stream_of(sy));
    reach!(same && x != y, "equal content at different offsets");
    if same {
        assert!(same_stream(&hx, &hy), "C02.hash.equal_slices_equal_stream");
    }
    assert!(hx.n == n * b + 8, "C02.hash.stream_is_bits_then_length");
    // a proper prefix never hashes like the longer slice
    let hp = stream_of(&s[x..x + n + 1]);
    assert!(hp.n != hx.n, "C02.hash.prefix_differs");
}

/// a k-mer hashes like the slice it was copied from
macro_rules! hash_kmer {
    ($A:ty, $K:expr, $S:ty, $N:expr, $W:expr) => {{
        let w = any_words::<{ $W }>();
        let s = arr::<$A, { $N }, { $W }>(w);
        let x = any_usize();
        assume(x <= $N - $K);
        let sl = &s[x..x + $K];
        let k = Kmer::<$A, { $K }, $S>::try_from(sl).unwrap();
        let (hs, hk) = (stream_of(sl), stream_of(&k));
        reach!(x > 0, "offset");
        assert!(hs.n == hk.n, "C02.hash.kmer_stream_length_eq_slice");
        assert!(same_stream(&hs, &hk), "C02.hash.kmer_stream_eq_slice");
    }};
}

/// k-mer == slice / &slice, both directions of content
macro_rules! eq_kmer {
    ($A:ty, $K:expr, $S:ty, $N:expr, $W:expr) => {{
        let b = <$A as Codec>::BITS as usize;
        let w = any_words::<{ $W }>();
        let s = arr::<$A, { $N }, { $W }>(w);
        let (x, y, n) = (any_usize(), any_usize(), any_usize());
        assume(x <= $N - $K && n <= $K + 1 && y <= $N - $K - 1);
        let k = Kmer::<$A, { $K }, $S>::try_from(&s[x..x + $K]).unwrap();
        let other = &s[y..y + n];
        let lo_k = bits_at(&w, x * b, if $K * b > 64 { 64 } else { $K * b });
        let lo_o = bits_at(&w, y * b, if $K * b > 64 { 64 } else { $K * b });
        let hi_k = if $K * b > 64 { bits_at(&w, x * b + 64, $K * b - 64) } else { 0 };
        let hi_o = if $K * b > 64 { bits_at(&w, y * b + 64, $K * b - 64) } else { 0 };
        let same = n == $K && lo_k == lo_o && hi_k == hi_o;
        reach!(same && x != y, "equal at different offsets");
        reach!(n != $K, "length mismatch");
        assert!((k == *other) == same, "C02.eq.kmer_vs_slice");
        assert!((k == other) == same, "C02.eq.kmer_vs_ref_slice");
    }};
}

/// one comparison, everything symbolic
#[inline(always)]
pub fn eq1<A: Codec, const N: usize, const W: usize>(maxn: usize) {
    let b = A::BITS as usize;
    let w = any_words::<W>();
    let s = arr::<A, N, W>(w);
    let (x, y, n, m) = (any_usize(), any_usize(), any_usize(), any_usize());
    assume(n <= maxn && m <= maxn && x <= N - maxn && y <= N - maxn);
    let (sx, sy) = (&s[x..x + n], &s[y..y + m]);
    let same = n == m && (n == 0 || bits_at(&w, x * b, n * b) == bits_at(&w, y * b, n * b));
    reach!(same && x != y && n > 1, "equal content at different offsets");
    reach!(!same && n == m && n > 1, "same length, different content");
    reach!(n != m, "different lengths");
    assert!((sx == sy) == same, "C02.eq.slice_eq_iff_same_content");
}
/// one comparison, symbolic offsets, concrete equal length
#[inline(always)]
pub fn eq1n<A: Codec, const N: usize, const W: usize>(n: usize) {
    let b = A::BITS as usize;
    let w = any_words::<W>();
    let s = arr::<A, N, W>(w);
    let (x, y) = (any_usize(), any_usize());
    assume(x <= N - n && y <= N - n);
    let (sx, sy) = (&s[x..x + n], &s[y..y + n]);
    let same = bits_at(&w, x * b, n * b) == bits_at(&w, y * b, n * b);
    reach!(same && x != y, "equal content at different offsets");
    assert!((sx == sy) == same, "C02.eq.slice_eq_iff_same_content");
}

/// every comparison form between two borrowed windows (concrete shape, symbolic content)
#[inline(always)]
pub fn eq_forms<A: Codec, const N: usize, const W: usize>(x: usize, n: usize, y: usize, m: usize) {
    let b = A::BITS as usize;
    let w = any_words::<W>();
    let s = arr::<A, N, W>(w);
    let (sx, sy) = (&s[x..x + n], &s[y..y + m]);
    let mut same = n == m;
    if same {
        // compare in chunks of at most 64 bits
        let mut done = 0;
        while done < n * b {
            let c = if n * b - done > 64 { 64 } else { n * b - done };
            same = same && bits_at(&w, x * b + done, c) == bits_at(&w, y * b + done, c);
            done += c;
        }
    }
    reach!("compared");
    assert!((sx == sy) == same, "C02.eq.slice_eq_iff_same_content");
    assert!((sy == sx) == same, "C02.eq.symmetric");
    assert!((sx != sy) == !same, "C02.eq.ne_is_negation");
    assert!((&sx == sy) == same, "C02.eq.ref_slice_vs_slice");
    assert!(sx == sx, "C02.eq.reflexive");
}

/// comparisons that involve an owned sequence (heap), concrete shape
macro_rules! eq_owned {
    ($A:ty, $N:expr, $o:expr, $n:expr, $y:expr, $m:expr) => {{
        let b = <$A as Codec>::BITS as usize;
        let w = any_words::<2>();
        let s = arr::<$A, { $N }, 2>(w);
        // owned copy of the window at $o (internal history: copied from an offset slice)
        let own: Seq<$A> = s[$o..$o + $n].to_owned();
        let other = &s[$y..$y + $m];
        let same = $m == $n && bits_at(&w, $o * b, $n * b) == bits_at(&w, $y * b, $n * b);
        reach!("compared");
        assert!((own == *other) == same, "C02.eq.seq_vs_slice");
        assert!((own == other) == same, "C02.eq.seq_vs_ref_slice");
        assert!((*other == own) == same, "C02.eq.slice_vs_seq");
        assert!((other == own) == same, "C02.eq.ref_slice_vs_seq");
        core::mem::forget(own);
    }};
}

/// sequence == displayed text: true exactly when lengths agree and every byte parses to the symbol at its position
macro_rules! eq_str {
    ($A:ty, $al:expr, $N:expr, $maxn:expr) => {{
        let b = <$A as Codec>::BITS as usize;
        let w = any_words::<2>();
        let s = arr::<$A, { $N }, 2>(w);
        let (o, n, m) = (any_usize(), any_usize(), any_usize());
        assume(n <= $maxn && m <= $maxn && o <= $N - $maxn);
        let win = &s[o..o + n];
        let bytes = any_bytes::<{ $maxn }>();
        let mut k = 0;
        while k < $maxn {
            assume(bytes[k] < 0x80);
            k += 1;
        }
        let txt: &str = unsafe { core::str::from_utf8_unchecked(&bytes[..m]) };
        let mut want = n == m;
        let mut i = 0;
        while i < $maxn {
            if i < n && i < m {
                let code = $al.from_bits[sym(&w, o * b, b, i) as usize];
                want = want && $al.from_char[bytes[i] as usize] == code;
            }
            i += 1;
        }
        reach!(want && n == $maxn, "equal, full length");
        reach!(!want && n == m && n > 0, "same length, different");
        assert!((*win == txt) == want, "C02.eq.slice_vs_str");
    }};
}

harnesses! {
    fn c02_q_kmer_eq_str_dna_k2 [10] {
        // Kmer == &str goes through Display (text formatting)
        let v = any_usize();
        assume(v < 16);
        let k = kmer::<Dna, 2>(v);
        let bytes = any_bytes::<2>();
        assume(bytes[0] < 0x80 && bytes[1] < 0x80);
        let txt: &str = unsafe { core::str::from_utf8_unchecked(&bytes) };
        let want = oracle::DNA.from_char[bytes[0] as usize] == (v & 3) as i16 && oracle::DNA.from_char[bytes[1] as usize] == ((v >> 2) & 3) as i16;
        reach!(want, "equal");
        assert!((k == txt) == want, "C02.eq.kmer_vs_str");
    }
    fn c02_q_eq_str_dna [10] { eq_str!(Dna, oracle::DNA, 64, 3) }
    fn c02_q_eq_str_amino [10] { eq_str!(Amino, oracle::AMINO, 21, 2) }
    fn c02_t_eq_str_iupac [10] { eq_str!(Iupac, oracle::IUPAC, 32, 3) }
    // case-carrying codecs: a lower-case letter is a different symbol from its upper-case form
    fn c02_q_eq_str_mdna [10] { eq_str!(masked::Dna, oracle::MDNA, 32, 2) }
    fn c02_t_eq_str_miupac [10] { eq_str!(masked::Iupac, oracle::MIUPAC, 25, 2) }
    fn c02_q_eq_sym_dna [10] { eq1::<Dna, 64, 2>(8); }
    fn c02_q_eq_sym_amino [10] { eq1::<Amino, 21, 2>(3); }
    fn c02_q_eq_sym_miupac [10] { eq1::<masked::Iupac, 25, 2>(3); }
    fn c02_t_eq_sym_iupac [10] { eq1::<Iupac, 32, 2>(4); }
    fn c02_t_eq_sym_text [10] { eq1::<text::Dna, 16, 2>(2); }
    fn c02_t_eq_sym_dna_3w [10] { eq1::<Dna, 96, 3>(8); }



    fn c02_q_eq_forms_dna_0_8_1_8 [10] { eq_forms::<Dna, 64, 2>(0, 8, 1, 8); }
    fn c02_q_eq_forms_dna_29_8_3_8 [10] { eq_forms::<Dna, 64, 2>(29, 8, 3, 8); }
    fn c02_q_eq_forms_dna_31_33_0_33 [10] { eq_forms::<Dna, 96, 3>(31, 33, 0, 33); }
    fn c02_q_eq_forms_dna_0_4_1_3 [10] { eq_forms::<Dna, 64, 2>(0, 4, 1, 3); }
    fn c02_q_eq_forms_dna_empty [10] { eq_forms::<Dna, 64, 2>(5, 0, 9, 0); }
    fn c02_q_eq_forms_amino_9_3_0_3 [10] { eq_forms::<Amino, 21, 2>(9, 3, 0, 3); }
    fn c02_q_eq_forms_amino_10_2_1_2 [10] { eq_forms::<Amino, 21, 2>(10, 2, 1, 2); }
    fn c02_q_eq_forms_miupac_12_3_1_3 [10] { eq_forms::<masked::Iupac, 25, 2>(12, 3, 1, 3); }
    fn c02_t_eq_forms_iupac_15_2_2_2 [10] { eq_forms::<Iupac, 32, 2>(15, 2, 2, 2); }
    fn c02_t_eq_forms_text_7_3_0_3 [10] { eq_forms::<text::Dna, 16, 2>(7, 3, 0, 3); }
    fn c02_t_eq_forms_dna_31_8_32_8 [10] { eq_forms::<Dna, 64, 2>(31, 8, 32, 8); }
    fn c02_t_eq_forms_dna_1_1_63_1 [10] { eq_forms::<Dna, 64, 2>(1, 1, 63, 1); }

    fn c02_q_eq_owned_dna_o1_n3_y5 [10] { eq_owned!(Dna, 64, 1, 3, 5, 3) }
    fn c02_q_eq_owned_dna_o1_n3_y5_m2 [10] { eq_owned!(Dna, 64, 1, 3, 5, 2) }
    fn c02_t_eq_owned_dna_o31_n2_y0 [10] { eq_owned!(Dna, 64, 31, 2, 0, 2) }
    fn c02_t_eq_owned_amino_o10_n2_y0 [10] { eq_owned!(Amino, 21, 10, 2, 0, 2) }

    fn c02_q_eq_seq_seq_after_truncate [10] {
        // owned == owned, one side shortened in place (its storage word keeps stale bits past the end)
        let w = any_words::<2>();
        let src = arr::<Dna, 64, 2>(w);
        let mut a = owned_cap(&src, 0, 4, 4);
        a.truncate(2);
        let b = owned_cap(&src, 20, 2, 2);
        let same = bits_at(&w, 0, 4) == bits_at(&w, 40, 4);
        reach!(same, "equal");
        reach!(!same, "different");
        assert!((a == b) == same, "C02.eq.seq_vs_seq");
        assert!((&a == b) == same, "C02.eq.ref_seq_vs_seq");
        assert!((a == &b) == same, "C02.eq.seq_vs_ref_seq");
        core::mem::forget(a);
        core::mem::forget(b);
    }
    fn c02_q_hash_seq_after_truncate [12] {
        // equal owned sequences feed identical hasher input whatever their history
        let w = any_words::<2>();
        let src = arr::<Dna, 64, 2>(w);
        let mut a = owned_cap(&src, 0, 4, 4);
        a.truncate(2);
        let b = &src[0..2];
        let (ha, hb) = (stream_of(&a), stream_of(b));
        assert!(ha.n == hb.n, "C02.hash.seq_stream_length_eq_slice");
        assert!(same_stream(&ha, &hb), "C02.hash.seq_stream_eq_slice");
        reach!("end");
        core::mem::forget(a);
    }
    fn c02_q_hash_windows_dna_n3 [20] { hash_windows::<Dna, 64, 2>(3); }
    fn c02_q_hash_windows_amino_n1 [20] { hash_windows::<Amino, 21, 2>(1); }
    fn c02_t_hash_windows_dna_n0 [20] { hash_windows::<Dna, 64, 2>(0); }
    fn c02_t_hash_windows_iupac_n2 [20] { hash_windows::<Iupac, 32, 2>(2); }

    fn c02_q_hash_kmer_dna_k3 [67] { hash_kmer!(Dna, 3, usize, 64, 2) }
    fn c02_q_hash_kmer_dna_k1 [67] { hash_kmer!(Dna, 1, usize, 64, 2) }
    fn c02_q_hash_kmer_amino_k2 [67] { hash_kmer!(Amino, 2, usize, 21, 2) }
    fn c02_t_hash_kmer_iupac_k2 [67] { hash_kmer!(Iupac, 2, usize, 32, 2) }
    fn c02_q_hash_kmer_dna_k3_u64 [67] { hash_kmer!(Dna, 3, u64, 64, 2) }
    fn c02_q_hash_kmer_dna_k3_u128 [131] { hash_kmer!(Dna, 3, u128, 64, 2) }
    fn c02_t_hash_kmer_dna_k33_u128 [131] { hash_kmer!(Dna, 33, u128, 96, 3) }
    fn c02_t_hash_kmer_dna_k64_u128 [131] { hash_kmer!(Dna, 64, u128, 192, 6) }
    fn c02_t_hash_kmer_dna_k32 [67] { hash_kmer!(Dna, 32, usize, 96, 3) }

    fn c02_q_eq_kmer_vs_array_and_seq [10] {
        // Kmer == SeqArray / &SeqArray / Seq
        let v = any_usize();
        assume(v < 256);
        let k = kmer::<Dna, 4>(v);
        let w = any_words::<1>();
        let a = arr::<Dna, 4, 1>(w);
        let same = (w[0] & 0xff) == v;
        reach!(same, "equal");
        assert!((k == a) == same, "C02.eq.kmer_vs_array");
        assert!((k == &a) == same, "C02.eq.kmer_vs_ref_array");
        let src = arr::<Dna, 32, 1>(w);
        let own = owned_cap(&src, 0, 4, 4);
        assert!((k == own) == same, "C02.eq.kmer_vs_seq");
        let shorter = owned_cap(&src, 0, 3, 3);
        assert!(!(k == shorter), "C02.eq.kmer_vs_shorter_seq");
        core::mem::forget(own);
        core::mem::forget(shorter);
    }
    fn c02_q_eq_kmer_dna_k4 [10] { eq_kmer!(Dna, 4, usize, 64, 2) }
    fn c02_q_eq_kmer_dna_k32 [10] { eq_kmer!(Dna, 32, usize, 96, 3) }
    fn c02_q_eq_kmer_amino_k10 [10] { eq_kmer!(Amino, 10, usize, 32, 3) }
    fn c02_q_eq_kmer_dna_k33_u128 [10] { eq_kmer!(Dna, 33, u128, 96, 3) }
    fn c02_t_eq_kmer_dna_k32_u64 [10] { eq_kmer!(Dna, 32, u64, 96, 3) }
    fn c02_t_eq_kmer_iupac_k16 [10] { eq_kmer!(Iupac, 16, usize, 48, 3) }
}
