//! C07 — reverse, complement and reverse-complement of sequences are exact
//! and involutive; copying forms agree with in-place forms.
use crate::oracle::{self, sym, Alpha};
use crate::pre::*;
use crate::vx::*;
use crate::{harnesses, reach};
use bio_seq::codec::{degenerate, masked, text};
use bio_seq::prelude::*;

#[inline(always)]
fn comp_code(kind: u8, c: u8) -> u8 {
    match kind {
        0 => oracle::dna_comp(c),
        1 => oracle::iupac_comp(c),
        // masked Iupac: complement the nucleotide set, keep the mask bit
        2 => oracle::miupac_code(oracle::iupac_comp(oracle::miupac_set(c)), c & 0b100 != 0),
        // masked Dna: 4-bit reversal (A<->T, C<->G, masked forms likewise; N, gap, pad fixed up to alias)
        3 => ((c & 8) >> 3) | ((c & 4) >> 1) | ((c & 2) << 1) | ((c & 1) << 3),
        _ => c,
    }
}

/// in-place reverse of an owned sequence (typed pre-state, head 0)
macro_rules! rev_inplace {
    ($A:ty, $al:expr, $N:expr, $L:expr) => {{
        let b = <$A as Codec>::BITS as usize;
        let w = any_words::<2>();
        let src = arr::<$A, { $N }, 2>(w);
        let mut s = owned_cap(&src, 0, $L, $L);
        s.rev();
        assert!(s.len() == $L, "C07.rev.len");
        let i = any_usize();
        assume(i < $L);
        assert!(s.nth(i).to_bits() == $al.from_bits[sym(&w, 0, b, $L - 1 - i) as usize] as u8, "C07.rev.symbol_i_is_old_symbol_L_1_i");
        s.rev();
        assert!(s.nth(i).to_bits() == $al.from_bits[sym(&w, 0, b, i) as usize] as u8, "C07.rev.twice_restores");
        reach!("end");
        core::mem::forget(s);
    }};
}

macro_rules! comp_inplace {
    ($A:ty, $al:expr, $kind:expr, $N:expr, $L:expr) => {{
        let b = <$A as Codec>::BITS as usize;
        let w = any_words::<2>();
        let src = arr::<$A, { $N }, 2>(w);
        let mut s = owned_cap(&src, 0, $L, $L);
        s.comp();
        assert!(s.len() == $L, "C07.comp.len");
        let i = any_usize();
        assume(i < $L);
        let old = $al.from_bits[sym(&w, 0, b, i) as usize] as u8;
        let want = $al.from_bits[comp_code($kind, old) as usize] as u8;
        assert!(s.nth(i).to_bits() == want, "C07.comp.symbol_i_is_complement_of_old_symbol_i");
        s.comp();
        assert!(s.nth(i).to_bits() == $al.from_bits[comp_code($kind, want) as usize] as u8, "C07.comp.twice_is_double_complement");
        reach!("end");
        core::mem::forget(s);
    }};
}

macro_rules! revcomp_inplace {
    ($A:ty, $al:expr, $kind:expr, $N:expr, $L:expr) => {{
        let b = <$A as Codec>::BITS as usize;
        let w = any_words::<2>();
        let src = arr::<$A, { $N }, 2>(w);
        let mut s = owned_cap(&src, 0, $L, $L);
        s.revcomp();
        let i = any_usize();
        assume(i < $L);
        let old = $al.from_bits[sym(&w, 0, b, $L - 1 - i) as usize] as u8;
        let want = $al.from_bits[comp_code($kind, old) as usize] as u8;
        assert!(s.len() == $L, "C07.revcomp.len");
        assert!(s.nth(i).to_bits() == want, "C07.revcomp.symbol_i_is_complement_of_old_symbol_L_1_i");
        reach!("end");
        core::mem::forget(s);
    }};
}

/// copying forms on a borrowed window at an offset: receiver untouched, result per oracle
/// ($which: 0 = to_rev, 1 = to_comp, 2 = to_revcomp; one operation per harness)
macro_rules! to_forms {
    ($A:ty, $al:expr, $kind:expr, $N:expr, $o:expr, $n:expr, $which:expr) => {{
        let b = <$A as Codec>::BITS as usize;
        let w = any_words::<2>();
        let a = arr::<$A, { $N }, 2>(w);
        let win = &a[$o..$o + $n];
        let i = any_usize();
        assume(i < $n);
        let r: Seq<$A> = if $which == 0 { win.to_rev() } else if $which == 1 { win.to_comp() } else { win.to_revcomp() };
        let src = if $which == 1 { i } else { $n - 1 - i };
        let old = $al.from_bits[sym(&w, $o * b, b, src) as usize] as u8;
        let want = if $which == 0 { old } else { $al.from_bits[comp_code($kind, old) as usize] as u8 };
        assert!(r.len() == $n, "C07.to.len");
        assert!(r.nth(i).to_bits() == want, "C07.to.symbol");
        // the receiver still reads the old symbols
        assert!(win.nth(i).to_bits() == $al.from_bits[sym(&w, $o * b, b, i) as usize] as u8, "C07.to.receiver_untouched");
        reach!("end");
        core::mem::forget(r);
    }};
}

/// reverse only (codecs without complement)
macro_rules! to_rev_only {
    ($A:ty, $al:expr, $N:expr, $o:expr, $n:expr) => {{
        let b = <$A as Codec>::BITS as usize;
        let w = any_words::<2>();
        let a = arr::<$A, { $N }, 2>(w);
        let win = &a[$o..$o + $n];
        let i = any_usize();
        assume(i < $n);
        let r: Seq<$A> = win.to_rev();
        assert!(r.len() == $n, "C07.to.len");
        assert!(r.nth(i).to_bits() == $al.from_bits[sym(&w, $o * b, b, $n - 1 - i) as usize] as u8, "C07.to.symbol");
        reach!("end");
        core::mem::forget(r);
    }};
}

harnesses! {
    fn c07_q_rev_dna_l4 [10] { rev_inplace!(Dna, oracle::DNA, 64, 4) }
    fn c07_q_rev_dna_l1 [10] { rev_inplace!(Dna, oracle::DNA, 64, 1) }
    // lengths that fill the last storage word exactly (32 Dna / 16 Iupac symbols) and one symbol more; the c07_x_* ones
    // are in no tier: comp/revcomp of 32 Dna, rev of 33 Dna and comp of 16 Iupac symbols gave no verdict after 7-20 min / 6-9 GB at unwind 70;
    // rev of 32 Dna symbols holds at unwind 34 (7.7 GB) and is in the thorough tier
    fn c07_t_rev_dna_l32 [36] { rev_inplace!(Dna, oracle::DNA, 64, 32) }
    fn c07_x_rev_dna_l33 [70] { rev_inplace!(Dna, oracle::DNA, 64, 33) }
    fn c07_x_comp_dna_l32 [70] { comp_inplace!(Dna, oracle::DNA, 0, 64, 32) }
    fn c07_x_comp_iupac_l16 [70] { comp_inplace!(Iupac, oracle::IUPAC, 1, 32, 16) }
    fn c07_x_revcomp_dna_l32 [70] { revcomp_inplace!(Dna, oracle::DNA, 0, 64, 32) }
    fn c07_q_rev_dna_l0 [10] {
        let mut s: Seq<Dna> = Seq::new();
        s.rev();
        assert!(s.len() == 0, "C07.rev.empty");
        s.comp();
        assert!(s.len() == 0, "C07.comp.empty");
        s.revcomp();
        assert!(s.is_empty(), "C07.revcomp.empty");
        reach!("end");
        core::mem::forget(s);
    }
    fn c07_q_rev_amino_l3 [11] { rev_inplace!(Amino, oracle::AMINO, 21, 3) }
    fn c07_q_rev_miupac_l3 [10] { rev_inplace!(masked::Iupac, oracle::MIUPAC, 25, 3) }
    fn c07_t_rev_dna_l33 [35] { rev_inplace!(Dna, oracle::DNA, 64, 33) }
    fn c07_t_rev_iupac_l3 [10] { rev_inplace!(Iupac, oracle::IUPAC, 32, 3) }
    fn c07_t_rev_text_l2 [10] { rev_inplace!(text::Dna, oracle::TEXT_RAW, 16, 2) }
    fn c07_t_rev_degen_l5 [10] { rev_inplace!(degenerate::Dna, oracle::DEGEN, 128, 5) }
    fn c07_q_rev_amino_l11 [35] { rev_inplace!(Amino, oracle::AMINO, 21, 11) }

    fn c07_q_comp_dna_l4 [10] { comp_inplace!(Dna, oracle::DNA, 0, 64, 4) }
    fn c07_q_comp_iupac_l3 [10] { comp_inplace!(Iupac, oracle::IUPAC, 1, 32, 3) }
    fn c07_q_comp_miupac_l3 [10] { comp_inplace!(masked::Iupac, oracle::MIUPAC, 2, 25, 3) }
    fn c07_t_comp_mdna_l3 [10] { comp_inplace!(masked::Dna, oracle::MDNA, 3, 32, 3) }
    fn c07_t_comp_degen_l3 [10] { comp_inplace!(degenerate::Dna, oracle::DEGEN, 4, 128, 3) }
    fn c07_t_comp_dna_l33 [35] { comp_inplace!(Dna, oracle::DNA, 0, 64, 33) }
    fn c07_q_comp_miupac_l13 [15] { comp_inplace!(masked::Iupac, oracle::MIUPAC, 2, 25, 13) }

    fn c07_q_revcomp_dna_l1 [10] { revcomp_inplace!(Dna, oracle::DNA, 0, 64, 1) }
    fn c07_q_revcomp_dna_l2 [10] { revcomp_inplace!(Dna, oracle::DNA, 0, 64, 2) }
    fn c07_q_to_revcomp_dna_o31_n1 [10] { to_forms!(Dna, oracle::DNA, 0, 64, 31, 1, 2) }
    fn c07_q_revcomp_dna_l3 [10] { revcomp_inplace!(Dna, oracle::DNA, 0, 64, 3) }
    fn c07_t_revcomp_iupac_l3 [10] { revcomp_inplace!(Iupac, oracle::IUPAC, 1, 32, 3) }
    fn c07_t_revcomp_miupac_l3 [10] { revcomp_inplace!(masked::Iupac, oracle::MIUPAC, 2, 25, 3) }

    fn c07_q_to_rev_dna_o31_n2 [10] { to_forms!(Dna, oracle::DNA, 0, 64, 31, 2, 0) }
    fn c07_q_to_comp_dna_o31_n2 [10] { to_forms!(Dna, oracle::DNA, 0, 64, 31, 2, 1) }
    fn c07_q_to_revcomp_dna_o31_n2 [10] { to_forms!(Dna, oracle::DNA, 0, 64, 31, 2, 2) }
    fn c07_q_to_revcomp_dna_o5_n3 [10] { to_forms!(Dna, oracle::DNA, 0, 64, 5, 3, 2) }
    fn c07_t_to_revcomp_iupac_o15_n2 [10] { to_forms!(Iupac, oracle::IUPAC, 1, 32, 15, 2, 2) }
    fn c07_t_to_comp_iupac_o15_n2 [10] { to_forms!(Iupac, oracle::IUPAC, 1, 32, 15, 2, 1) }
    fn c07_q_to_revcomp_miupac_o12_n1 [10] { to_forms!(masked::Iupac, oracle::MIUPAC, 2, 25, 12, 1, 2) }
    fn c07_t_to_revcomp_miupac_o12_n2 [10] { to_forms!(masked::Iupac, oracle::MIUPAC, 2, 25, 12, 2, 2) }
    fn c07_t_to_rev_miupac_o12_n2 [10] { to_forms!(masked::Iupac, oracle::MIUPAC, 2, 25, 12, 2, 0) }
    fn c07_q_to_rev_amino_o10_n1 [10] { to_rev_only!(Amino, oracle::AMINO, 21, 10, 1) }
    fn c07_t_to_rev_amino_o10_n2 [10] { to_rev_only!(Amino, oracle::AMINO, 21, 10, 2) }
}
