//! C10 — ordering is colexicographic = numeric order of the packed integer.
use crate::oracle::{self, bits_at, colex_cmp, mask128};
use crate::pre::*;
use crate::vx::*;
use crate::{harnesses, reach};
use bio_seq::codec::{masked, text};
use bio_seq::prelude::*;
use core::cmp::Ordering;

#[inline(always)]
fn any_canon(bits: usize) -> usize {
    let v = any_usize();
    assume(v as u128 <= mask128(bits));
    v
}

#[inline(always)]
pub fn kmer_ord<A: Codec + Ord, const K: usize>() {
    let b = A::BITS as usize;
    let (x, y, z) = (any_canon(K * b), any_canon(K * b), any_canon(K * b));
    let (kx, ky, kz) = (kmer::<A, K>(x), kmer::<A, K>(y), kmer::<A, K>(z));
    let want = colex_cmp(x as u128, y as u128, b, K);
    assert!(kx.cmp(&ky) == want, "C10.kmer.cmp_is_colexicographic");
    assert!(kx.partial_cmp(&ky) == Some(want), "C10.kmer.partial_cmp_consistent");
    assert!(kx.cmp(&ky) == usize::from(&kx).cmp(&usize::from(&ky)), "C10.kmer.cmp_is_integer_order");
    assert!((kx < ky) == (want == Ordering::Less), "C10.kmer.lt");
    assert!((kx == ky) == (want == Ordering::Equal), "C10.kmer.equal_iff_eq");
    assert!(ky.cmp(&kx) == want.reverse(), "C10.kmer.antisymmetric");
    if kx <= ky && ky <= kz {
        assert!(kx <= kz, "C10.kmer.transitive");
    }
    assert!(core::cmp::min(kx, ky) == if want == Ordering::Greater { ky } else { kx }, "C10.kmer.min");
    reach!(want == Ordering::Less, "less");
    reach!(want == Ordering::Greater, "greater");
}

/// equal-length owned sequences order like the k-mers with the same content
#[inline(always)]
pub fn seq_ord<A: Codec + Ord>(n: usize) {
    let b = A::BITS as usize;
    let (x, y) = (any_usize(), any_usize());
    let sx: Seq<A> = owned1::<A>(x, n);
    let sy: Seq<A> = owned1::<A>(y, n);
    let want = colex_cmp((x as u128) & mask128(n * b), (y as u128) & mask128(n * b), b, n);
    let got = sx.cmp(&sy);
    assert!(got == want, "C10.seq.cmp_is_colexicographic");
    assert!(sx.partial_cmp(&sy) == Some(want), "C10.seq.partial_cmp_consistent");
    assert!((got == Ordering::Equal) == ((x as u128) & mask128(n * b) == (y as u128) & mask128(n * b)), "C10.seq.equal_iff_same_content");
    assert!(sy.cmp(&sx) == want.reverse(), "C10.seq.antisymmetric");
    reach!(want == Ordering::Less, "less");
    reach!(want == Ordering::Greater, "greater");
    core::mem::forget(sx);
    core::mem::forget(sy);
}

/// equal-length owned sequences longer than one storage word: numeric order of the packed integer
/// (high word first), which for symbol-aligned content is the colexicographic order.  The two sequences
/// share a concrete low part; the 8 bits below the word boundary and the bits above it are symbolic in both
/// (a fully symbolic 66-bit pair does not finish: 8 GB after 13 min), so every way of differing on either or
/// both sides of the boundary is covered, differences further down are not.
#[inline(always)]
pub fn seq_ord_2w<A: Codec, const N: usize>(n: usize) {
    let b = A::BITS as usize;
    const LOW: usize = 0x0036_c9e2_4b1d_a057;
    let hb = n * b - 64;
    let (tx, ty) = (any_u8(), any_u8());
    let (ux, uy) = (any_u8(), any_u8());
    assume((ux as usize) < (1 << hb) && (uy as usize) < (1 << hb));
    let wx = [LOW | ((tx as usize) << 56), ux as usize];
    let wy = [LOW | ((ty as usize) << 56), uy as usize];
    let sx: Seq<A> = owned2::<A>(wx[0], wx[1], n);
    let sy: Seq<A> = owned2::<A>(wy[0], wy[1], n);
    let want = if ux != uy { ux.cmp(&uy) } else { tx.cmp(&ty) };
    let got = sx.cmp(&sy);
    assert!(got == want, "C10.seq.cmp_is_colexicographic_two_words");
    assert!(sy.cmp(&sx) == want.reverse(), "C10.seq.antisymmetric_two_words");
    reach!(want == Ordering::Less && ux == uy, "decided in the low word");
    reach!(want == Ordering::Greater && ux != uy, "decided in the high word");
    reach!(ux > uy && tx < ty, "words disagree");
    core::mem::forget(sx);
    core::mem::forget(sy);
}

harnesses! {
    fn c10_q_kmer_dna_k1 [34] { kmer_ord::<Dna, 1>(); }
    fn c10_q_kmer_dna_k2 [34] { kmer_ord::<Dna, 2>(); }
    fn c10_q_kmer_dna_k4 [34] { kmer_ord::<Dna, 4>(); }
    fn c10_q_kmer_dna_k31 [34] { kmer_ord::<Dna, 31>(); }
    fn c10_q_kmer_dna_k32 [34] { kmer_ord::<Dna, 32>(); }
    fn c10_q_kmer_mdna_k16 [34] { kmer_ord::<masked::Dna, 16>(); }
    fn c10_q_kmer_miupac_k12 [34] { kmer_ord::<masked::Iupac, 12>(); }
    fn c10_t_kmer_dna_k3 [34] { kmer_ord::<Dna, 3>(); }
    fn c10_t_kmer_dna_k16 [34] { kmer_ord::<Dna, 16>(); }
    fn c10_t_kmer_mdna_k1 [34] { kmer_ord::<masked::Dna, 1>(); }
    fn c10_t_kmer_miupac_k5 [34] { kmer_ord::<masked::Iupac, 5>(); }
    fn c10_t_kmer_text_k8 [34] { kmer_ord::<text::Dna, 8>(); }
    fn c10_t_kmer_dna_k5 [34] { kmer_ord::<Dna, 5>(); }
    fn c10_t_kmer_dna_k6 [34] { kmer_ord::<Dna, 6>(); }
    fn c10_t_kmer_dna_k7 [34] { kmer_ord::<Dna, 7>(); }
    fn c10_t_kmer_dna_k8 [34] { kmer_ord::<Dna, 8>(); }
    fn c10_t_kmer_dna_k9 [34] { kmer_ord::<Dna, 9>(); }
    fn c10_t_kmer_dna_k10 [34] { kmer_ord::<Dna, 10>(); }
    fn c10_t_kmer_dna_k11 [34] { kmer_ord::<Dna, 11>(); }
    fn c10_t_kmer_dna_k12 [34] { kmer_ord::<Dna, 12>(); }
    fn c10_t_kmer_dna_k13 [34] { kmer_ord::<Dna, 13>(); }
    fn c10_t_kmer_dna_k14 [34] { kmer_ord::<Dna, 14>(); }
    fn c10_t_kmer_dna_k15 [34] { kmer_ord::<Dna, 15>(); }
    fn c10_t_kmer_dna_k17 [34] { kmer_ord::<Dna, 17>(); }
    fn c10_t_kmer_dna_k18 [34] { kmer_ord::<Dna, 18>(); }
    fn c10_t_kmer_dna_k19 [34] { kmer_ord::<Dna, 19>(); }
    fn c10_t_kmer_dna_k20 [34] { kmer_ord::<Dna, 20>(); }
    fn c10_t_kmer_dna_k21 [34] { kmer_ord::<Dna, 21>(); }
    fn c10_t_kmer_dna_k22 [34] { kmer_ord::<Dna, 22>(); }
    fn c10_t_kmer_dna_k23 [34] { kmer_ord::<Dna, 23>(); }
    fn c10_t_kmer_dna_k24 [34] { kmer_ord::<Dna, 24>(); }
    fn c10_t_kmer_dna_k25 [34] { kmer_ord::<Dna, 25>(); }
    fn c10_t_kmer_dna_k26 [34] { kmer_ord::<Dna, 26>(); }
    fn c10_t_kmer_dna_k27 [34] { kmer_ord::<Dna, 27>(); }
    fn c10_t_kmer_dna_k28 [34] { kmer_ord::<Dna, 28>(); }
    fn c10_t_kmer_dna_k29 [34] { kmer_ord::<Dna, 29>(); }
    fn c10_t_kmer_dna_k30 [34] { kmer_ord::<Dna, 30>(); }
    fn c10_t_kmer_miupac_k1 [34] { kmer_ord::<masked::Iupac, 1>(); }
    fn c10_t_kmer_miupac_k2 [34] { kmer_ord::<masked::Iupac, 2>(); }
    fn c10_t_kmer_miupac_k3 [34] { kmer_ord::<masked::Iupac, 3>(); }
    fn c10_t_kmer_miupac_k4 [34] { kmer_ord::<masked::Iupac, 4>(); }
    fn c10_t_kmer_miupac_k6 [34] { kmer_ord::<masked::Iupac, 6>(); }
    fn c10_t_kmer_miupac_k7 [34] { kmer_ord::<masked::Iupac, 7>(); }
    fn c10_t_kmer_miupac_k8 [34] { kmer_ord::<masked::Iupac, 8>(); }
    fn c10_t_kmer_miupac_k9 [34] { kmer_ord::<masked::Iupac, 9>(); }
    fn c10_t_kmer_miupac_k10 [34] { kmer_ord::<masked::Iupac, 10>(); }
    fn c10_t_kmer_miupac_k11 [34] { kmer_ord::<masked::Iupac, 11>(); }
    fn c10_t_kmer_mdna_k2 [34] { kmer_ord::<masked::Dna, 2>(); }
    fn c10_t_kmer_mdna_k3 [34] { kmer_ord::<masked::Dna, 3>(); }
    fn c10_t_kmer_mdna_k4 [34] { kmer_ord::<masked::Dna, 4>(); }
    fn c10_t_kmer_mdna_k5 [34] { kmer_ord::<masked::Dna, 5>(); }
    fn c10_t_kmer_mdna_k6 [34] { kmer_ord::<masked::Dna, 6>(); }
    fn c10_t_kmer_mdna_k7 [34] { kmer_ord::<masked::Dna, 7>(); }
    fn c10_t_kmer_mdna_k8 [34] { kmer_ord::<masked::Dna, 8>(); }
    fn c10_t_kmer_mdna_k9 [34] { kmer_ord::<masked::Dna, 9>(); }
    fn c10_t_kmer_mdna_k10 [34] { kmer_ord::<masked::Dna, 10>(); }
    fn c10_t_kmer_mdna_k11 [34] { kmer_ord::<masked::Dna, 11>(); }
    fn c10_t_kmer_mdna_k12 [34] { kmer_ord::<masked::Dna, 12>(); }
    fn c10_t_kmer_mdna_k13 [34] { kmer_ord::<masked::Dna, 13>(); }
    fn c10_t_kmer_mdna_k14 [34] { kmer_ord::<masked::Dna, 14>(); }
    fn c10_t_kmer_mdna_k15 [34] { kmer_ord::<masked::Dna, 15>(); }
    fn c10_q_kmer128_dna_k33 [36] {
        let (x, y) = (any_u128(), any_u128());
        assume(x <= mask128(66) && y <= mask128(66));
        let (kx, ky) = (kmer128::<Dna, 33>(x), kmer128::<Dna, 33>(y));
        let want = colex_cmp(x, y, 2, 33);
        assert!(kx.cmp(&ky) == want, "C10.kmer128.cmp_is_colexicographic");
        assert!((kx == ky) == (want == Ordering::Equal), "C10.kmer128.equal_iff_eq");
        reach!(want == Ordering::Less, "less");
    }
    fn c10_q_minimiser_dna_k4_n6 [10] {
        // min over the k-mers of a window is its colexicographic minimiser
        let w = any_words::<2>();
        let s = arr::<Dna, 64, 2>(w);
        let o = any_usize();
        assume(o <= 58);
        let win = &s[o..o + 6];
        let m = win.kmers::<4>().min();
        assert!(m.is_some(), "C10.min.some");
        let m = m.unwrap();
        let p0 = bits_at(&w, 2 * o, 8);
        let p1 = bits_at(&w, 2 * o + 2, 8);
        let p2 = bits_at(&w, 2 * o + 4, 8);
        assert!(m.bs == p0 || m.bs == p1 || m.bs == p2, "C10.min.is_one_of_the_windows");
        assert!(colex_cmp(m.bs as u128, p0 as u128, 2, 4) != Ordering::Greater, "C10.min.le_window0");
        assert!(colex_cmp(m.bs as u128, p1 as u128, 2, 4) != Ordering::Greater, "C10.min.le_window1");
        assert!(colex_cmp(m.bs as u128, p2 as u128, 2, 4) != Ordering::Greater, "C10.min.le_window2");
        reach!(o == 30, "straddle");
    }
    fn c10_q_seq_ord_after_truncate [10] {
        // equal-length owned sequences, one shortened in place (stale bits past its end)
        let w = any_words::<2>();
        let src = arr::<Dna, 64, 2>(w);
        let mut a = owned_cap(&src, 0, 5, 5);
        a.truncate(3);
        let b = owned_cap(&src, 20, 3, 3);
        let (x, y) = (bits_at(&w, 0, 6) as u128, bits_at(&w, 40, 6) as u128);
        let want = colex_cmp(x, y, 2, 3);
        assert!(a.cmp(&b) == want, "C10.seq.cmp_is_colexicographic_after_truncate");
        assert!(b.cmp(&a) == want.reverse(), "C10.seq.antisymmetric_after_truncate");
        reach!(want == Ordering::Less, "less");
        reach!(want == Ordering::Equal, "equal");
        core::mem::forget(a);
        core::mem::forget(b);
    }
    fn c10_q_seq_dna_n1 [10] { seq_ord::<Dna>(1); }
    fn c10_q_seq_dna_n2 [10] { seq_ord::<Dna>(2); }
    fn c10_q_seq_dna_n4 [10] { seq_ord::<Dna>(4); }
    fn c10_q_seq_mdna_n2 [10] { seq_ord::<masked::Dna>(2); }
    fn c10_q_seq_dna_n33 [70] { seq_ord_2w::<Dna, 64>(33); }
    fn c10_t_seq_amino_n11 [70] { seq_ord_2w::<Amino, 21>(11); }
    fn c10_t_seq_dna_n3 [10] { seq_ord::<Dna>(3); }
    fn c10_t_seq_dna_n16 [34] { seq_ord::<Dna>(16); }
    fn c10_t_seq_miupac_n3 [18] { seq_ord::<masked::Iupac>(3); }
}
