//! C03 — slicing and indexing select exactly the requested symbols, or refuse.
use crate::oracle::{self, sym, Alpha};
use crate::pre::*;
use crate::vx::*;
use crate::{harnesses, must_not_return, reach};
use bio_seq::codec::{degenerate, masked, text};
use bio_seq::prelude::*;

/// `sub` must be the `n` symbols of the word array starting at symbol `a`
#[inline(always)]
pub fn check_sub<A: Codec>(al: &Alpha, w: &[usize], sub: &SeqSlice<A>, a: usize, n: usize) {
    let b = A::BITS as usize;
    assert!(sub.len() == n, "C03.slice.len");
    assert!(sub.is_empty() == (n == 0), "C03.slice.is_empty");
    let i = any_usize();
    let g = sub.get(i);
    assert!(g.is_some() == (i < n), "C03.get.some_iff_in_bounds");
    if i < n {
        let want = al.from_bits[sym(w, a * b, b, i) as usize] as u8;
        assert!(sub.nth(i).to_bits() == want, "C03.nth.symbol");
        assert!(g.unwrap().to_bits() == want, "C03.get.symbol");
        let one = &sub[i];
        assert!(one.len() == 1, "C03.index.single_len");
        assert!(one.nth(0).to_bits() == want, "C03.index.single_symbol");
    }
    reach!(n > 1 && i == n - 1, "last symbol");
}

macro_rules! forms {
    ($A:ty, $al:expr, $N:expr, $W:expr, $c:ident;
     $range:ident $incl:ident $to:ident $toincl:ident $from:ident $full:ident $nest:ident $oob:ident $oobi:ident $oobincl:ident $oobfrom:ident) => {
        harnesses_inner! {
            fn $range [10] {
                let w = any_words::<{ $W }>();
                let s = arr::<$A, { $N }, { $W }>(w);
                let (a, b) = (any_usize(), any_usize());
                assume(a <= b && b <= $N);
                check_sub::<$A>(&$al, &w, &s[a..b], a, b - a);
            }
            fn $incl [10] {
                let w = any_words::<{ $W }>();
                let s = arr::<$A, { $N }, { $W }>(w);
                let (a, b) = (any_usize(), any_usize());
                assume(b < $N && a <= b + 1);
                check_sub::<$A>(&$al, &w, &s[a..=b], a, b + 1 - a);
            }
            fn $to [10] {
                let w = any_words::<{ $W }>();
                let s = arr::<$A, { $N }, { $W }>(w);
                let b = any_usize();
                assume(b <= $N);
                check_sub::<$A>(&$al, &w, &s[..b], 0, b);
            }
            fn $toincl [10] {
                let w = any_words::<{ $W }>();
                let s = arr::<$A, { $N }, { $W }>(w);
                let b = any_usize();
                assume(b < $N);
                check_sub::<$A>(&$al, &w, &s[..=b], 0, b + 1);
            }
            fn $from [10] {
                let w = any_words::<{ $W }>();
                let s = arr::<$A, { $N }, { $W }>(w);
                let a = any_usize();
                assume(a <= $N);
                check_sub::<$A>(&$al, &w, &s[a..], a, $N - a);
            }
            fn $full [10] {
                let w = any_words::<{ $W }>();
                let s = arr::<$A, { $N }, { $W }>(w);
                check_sub::<$A>(&$al, &w, &s[..], 0, $N);
            }
            fn $nest [10] {
                // depth-3 re-slicing with three independent symbolic ranges
                let w = any_words::<{ $W }>();
                let s = arr::<$A, { $N }, { $W }>(w);
                let (a, b) = (any_usize(), any_usize());
                assume(a <= b && b <= $N);
                let s1 = &s[a..b];
                let (c, d) = (any_usize(), any_usize());
                assume(c <= d && d <= b - a);
                let s2 = &s1[c..d];
                let (e, f) = (any_usize(), any_usize());
                assume(e <= f && f <= d - c);
                let s3 = &s2[e..f];
                reach!(a > 0 && c > 0 && e > 0 && f > e, "all offsets non-zero");
                check_sub::<$A>(&$al, &w, s3, a + c + e, f - e);
            }
        }
        harnesses_inner! {
            fn $oob [10] {
                // range ends one or two symbols past the end, or is reversed: must panic
                let w = any_words::<{ $W }>();
                let s = arr::<$A, { $N }, { $W }>(w);
                let (a, b) = (any_usize(), any_usize());
                assume(b <= $N + 2 && a <= $N + 2);
                assume(b > $N || a > b);
                reach!("before call");
                let sub = &s[a..b];
                let _ = sub.len();
                must_not_return!("C03.oob.range_returned_a_slice");
            }
            fn $oobi [10] {
                // single index / nth at len and len+1 must panic; get returns None
                let w = any_words::<{ $W }>();
                let s = arr::<$A, { $N }, { $W }>(w);
                let (a, b) = (any_usize(), any_usize());
                assume(a <= b && b <= $N);
                let sub = &s[a..b];
                let i = any_usize();
                assume(i >= b - a && i <= b - a + 1);
                assert!(sub.get(i).is_none(), "C03.oob.get_returned_a_symbol");
                reach!("before call");
                if any_bool() {
                    let one = &sub[i];
                    let _ = one.len();
                } else {
                    let _ = sub.nth(i);
                }
                must_not_return!("C03.oob.index_returned");
            }
            fn $oobincl [10] {
                let w = any_words::<{ $W }>();
                let s = arr::<$A, { $N }, { $W }>(w);
                let (a, b) = (any_usize(), any_usize());
                assume(b <= $N + 1 && a <= $N + 2);
                assume(b >= $N || a > b + 1);
                reach!("before call");
                if any_bool() {
                    let sub = &s[a..=b];
                    let _ = sub.len();
                } else {
                    let sub = &s[..=b];
                    assume(b >= $N);
                    let _ = sub.len();
                }
                must_not_return!("C03.oob.inclusive_range_returned_a_slice");
            }
            fn $oobfrom [10] {
                let w = any_words::<{ $W }>();
                let s = arr::<$A, { $N }, { $W }>(w);
                let a = any_usize();
                assume(a > $N && a <= $N + 2);
                reach!("before call");
                if any_bool() {
                    let sub = &s[a..];
                    let _ = sub.len();
                } else {
                    let sub = &s[..a];
                    let _ = sub.len();
                }
                must_not_return!("C03.oob.open_range_returned_a_slice");
            }
        }
    };
}

// `harnesses!` builds one TABLE per invocation; here many invocations share a
// module, so the per-codec groups are emitted without a table and listed below.
macro_rules! harnesses_inner {
    ($( fn $name:ident [$unw:expr] $body:block )*) => {
        $(
            #[cfg_attr(kani, kani::proof)]
            #[cfg_attr(kani, kani::unwind($unw))]
            pub fn $name() $body
        )*
    };
}

forms!(Dna, oracle::DNA, 96, 3, dna;
    c03_q_dna_range c03_q_dna_incl c03_q_dna_to c03_q_dna_toincl c03_q_dna_from c03_q_dna_full c03_q_dna_nest3
    c03_q_dna_oob_range_xp c03_q_dna_oob_index_xp c03_q_dna_oob_incl_xp c03_q_dna_oob_open_xp);
forms!(Iupac, oracle::IUPAC, 48, 3, iupac;
    c03_t_iupac_range c03_t_iupac_incl c03_t_iupac_to c03_t_iupac_toincl c03_t_iupac_from c03_t_iupac_full c03_q_iupac_nest3
    c03_t_iupac_oob_range_xp c03_t_iupac_oob_index_xp c03_t_iupac_oob_incl_xp c03_t_iupac_oob_open_xp);
forms!(masked::Iupac, oracle::MIUPAC, 38, 3, miupac;
    c03_q_miupac_range c03_t_miupac_incl c03_t_miupac_to c03_t_miupac_toincl c03_t_miupac_from c03_t_miupac_full c03_q_miupac_nest3
    c03_q_miupac_oob_range_xp c03_q_miupac_oob_index_xp c03_t_miupac_oob_incl_xp c03_t_miupac_oob_open_xp);
forms!(Amino, oracle::AMINO, 32, 3, amino;
    c03_q_amino_range c03_q_amino_incl c03_t_amino_to c03_q_amino_toincl c03_q_amino_from c03_t_amino_full c03_q_amino_nest3
    c03_q_amino_oob_range_xp c03_t_amino_oob_index_xp c03_q_amino_oob_incl_xp c03_q_amino_oob_open_xp);
forms!(degenerate::Dna, oracle::DEGEN, 128, 2, degen;
    c03_q_degen_range c03_t_degen_incl c03_t_degen_to c03_t_degen_toincl c03_t_degen_from c03_t_degen_full c03_t_degen_nest3
    c03_t_degen_oob_range_xp c03_q_degen_oob_index_xp c03_t_degen_oob_incl_xp c03_t_degen_oob_open_xp);
forms!(masked::Dna, oracle::MDNA, 32, 2, mdna;
    c03_t_mdna_range c03_t_mdna_incl c03_t_mdna_to c03_t_mdna_toincl c03_t_mdna_from c03_t_mdna_full c03_t_mdna_nest3
    c03_t_mdna_oob_range_xp c03_t_mdna_oob_index_xp c03_t_mdna_oob_incl_xp c03_t_mdna_oob_open_xp);

use crate::oracle::TEXT_RAW;
forms!(text::Dna, TEXT_RAW, 24, 3, text;
    c03_q_text_range c03_t_text_incl c03_t_text_to c03_t_text_toincl c03_t_text_from c03_t_text_full c03_t_text_nest3
    c03_t_text_oob_range_xp c03_t_text_oob_index_xp c03_t_text_oob_incl_xp c03_t_text_oob_open_xp);

// ---- through an owned (heap-backed) sequence and through a k-mer
harnesses_inner! {
    fn c03_q_owned_dna_range [10] {
        let w = any_words::<2>();
        let len = any_usize();
        assume(len <= 64);
        let s: Seq<Dna> = owned2::<Dna>(w[0], w[1], len);
        let (a, b) = (any_usize(), any_usize());
        assume(a <= b && b <= len);
        reach!(len == 33 && b == 33 && a == 31, "straddle");
        check_sub::<Dna>(&oracle::DNA, &w, &s[a..b], a, b - a);
        core::mem::forget(s);
    }
    fn c03_q_owned_amino_oob_xp [10] {
        let w = any_words::<2>();
        let len = any_usize();
        assume(len <= 21);
        let s: Seq<Amino> = owned2::<Amino>(w[0], w[1], len);
        let (a, b) = (any_usize(), any_usize());
        assume(b <= len + 2 && a <= len + 2);
        assume(b > len || a > b);
        reach!("before call");
        let sub = &s[a..b];
        let _ = sub.len();
        must_not_return!("C03.oob.owned_range_returned_a_slice");
    }
    fn c03_q_owned_head3_dna [10] {
        // an owned sequence whose bit vector does not start at bit 0 of its buffer
        // (only constructible through From<BitVec>): positional reads still follow the symbols
        let w = any_words::<2>();
        let bits = bitvec::array::BitArray::<[usize; 2], bitvec::order::Lsb0>::new(w);
        let bv: Bv = bitvec::vec::BitVec::from_bitslice(&bits[3..43]);
        let s: Seq<Dna> = Seq::from(bv);
        assert!(s.len() == 20, "C03.owned.len");
        let (a, b) = (any_usize(), any_usize());
        assume(a <= b && b <= 20);
        let sub = &s[a..b];
        assert!(sub.len() == b - a, "C03.slice.len");
        let i = any_usize();
        assume(i < b - a);
        assert!(sub.nth(i).to_bits() == crate::oracle::bits_at(&w, 3 + 2 * (a + i), 2) as u8, "C03.nth.symbol_with_nonzero_head");
        reach!(a > 0 && i > 0, "offset");
        core::mem::forget(s);
    }
    fn c03_q_kmer_deref_dna_k32 [10] {
        let v = any_usize();
        let k = kmer::<Dna, 32>(v);
        let s: &SeqSlice<Dna> = &k;
        let (a, b) = (any_usize(), any_usize());
        assume(a <= b && b <= 32);
        check_sub::<Dna>(&oracle::DNA, &[v], &s[a..b], a, b - a);
    }
    fn c03_q_kmer_deref_amino_k10 [10] {
        let v = any_usize();
        assume(v < (1 << 60));
        let k = kmer::<Amino, 10>(v);
        let s: &SeqSlice<Amino> = &k;
        assert!(s.len() == 10, "C03.kmer.deref_len");
        let (a, b) = (any_usize(), any_usize());
        assume(a <= b && b <= 10);
        check_sub::<Amino>(&oracle::AMINO, &[v], &s[a..b], a, b - a);
    }
}

macro_rules! table {
    ($($n:ident)*) => { pub const TABLE: &[(&str, fn())] = &[ $( (stringify!($n), $n as fn()) ),* ]; };
}
table!(
    c03_q_dna_range c03_q_dna_incl c03_q_dna_to c03_q_dna_toincl c03_q_dna_from c03_q_dna_full c03_q_dna_nest3
    c03_q_dna_oob_range_xp c03_q_dna_oob_index_xp c03_q_dna_oob_incl_xp c03_q_dna_oob_open_xp
    c03_t_iupac_range c03_t_iupac_incl c03_t_iupac_to c03_t_iupac_toincl c03_t_iupac_from c03_t_iupac_full c03_q_iupac_nest3
    c03_t_iupac_oob_range_xp c03_t_iupac_oob_index_xp c03_t_iupac_oob_incl_xp c03_t_iupac_oob_open_xp
    c03_q_miupac_range c03_t_miupac_incl c03_t_miupac_to c03_t_miupac_toincl c03_t_miupac_from c03_t_miupac_full c03_q_miupac_nest3
    c03_q_miupac_oob_range_xp c03_q_miupac_oob_index_xp c03_t_miupac_oob_incl_xp c03_t_miupac_oob_open_xp
    c03_q_amino_range c03_q_amino_incl c03_t_amino_to c03_q_amino_toincl c03_q_amino_from c03_t_amino_full c03_q_amino_nest3
    c03_q_amino_oob_range_xp c03_t_amino_oob_index_xp c03_q_amino_oob_incl_xp c03_q_amino_oob_open_xp
    c03_q_degen_range c03_t_degen_incl c03_t_degen_to c03_t_degen_toincl c03_t_degen_from c03_t_degen_full c03_t_degen_nest3
    c03_t_degen_oob_range_xp c03_q_degen_oob_index_xp c03_t_degen_oob_incl_xp c03_t_degen_oob_open_xp
    c03_t_mdna_range c03_t_mdna_incl c03_t_mdna_to c03_t_mdna_toincl c03_t_mdna_from c03_t_mdna_full c03_t_mdna_nest3
    c03_t_mdna_oob_range_xp c03_t_mdna_oob_index_xp c03_t_mdna_oob_incl_xp c03_t_mdna_oob_open_xp
    c03_q_text_range c03_t_text_incl c03_t_text_to c03_t_text_toincl c03_t_text_from c03_t_text_full c03_t_text_nest3
    c03_t_text_oob_range_xp c03_t_text_oob_index_xp c03_t_text_oob_incl_xp c03_t_text_oob_open_xp
    c03_q_owned_dna_range c03_q_owned_head3_dna c03_q_owned_amino_oob_xp c03_q_kmer_deref_dna_k32 c03_q_kmer_deref_amino_k10
);
