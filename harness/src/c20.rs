//! C20 — soft-masking changes case only and commutes with complement/reverse.
use crate::oracle::{self, miupac_code, miupac_set, sym, Alpha};
use crate::pre::*;
use crate::vx::*;
use crate::{harnesses, reach};
use bio_seq::codec::masked;
use bio_seq::prelude::*;

#[inline(always)]
fn lower(ch: u8) -> u8 {
    if ch == b'-' { b'.' } else if ch >= b'A' && ch <= b'Z' { ch + 32 } else { ch }
}
#[inline(always)]
fn upper(ch: u8) -> u8 {
    if ch == b'.' { b'-' } else if ch >= b'a' && ch <= b'z' { ch - 32 } else { ch }
}

/// oracle for the 5-bit codec: masking sets the flag bit, nothing else
#[inline(always)]
fn mi_mask(c: u8) -> u8 { miupac_code(miupac_set(c), true) }
#[inline(always)]
fn mi_unmask(c: u8) -> u8 { miupac_code(miupac_set(c), false) }
#[inline(always)]
fn mi_comp(c: u8) -> u8 { miupac_code(oracle::iupac_comp(miupac_set(c)), c & 0b100 != 0) }

macro_rules! seq_mask {
    ($L:expr, $op:expr) => {{
        // $op: 0 mask, 1 unmask, 2 mask then rev, 3 rev then mask, 4 mask then comp, 5 comp then mask
        let w = any_words::<2>();
        let src = arr::<masked::Iupac, 25, 2>(w);
        let mut s = owned_cap(&src, 0, $L, $L);
        match $op {
            0 => s.mask(),
            1 => s.unmask(),
            2 => { s.mask(); s.rev(); }
            3 => { s.rev(); s.mask(); }
            4 => { s.mask(); s.comp(); }
            _ => { s.comp(); s.mask(); }
        }
        assert!(s.len() == $L, "C20.seq.length_preserved");
        let i = any_usize();
        assume(i < $L);
        let from = if $op == 2 || $op == 3 { $L - 1 - i } else { i };
        let old = sym(&w, 0, 5, from);
        let want = match $op {
            0 | 2 | 3 => mi_mask(old),
            1 => mi_unmask(old),
            _ => mi_mask(mi_comp(old)),
        };
        assert!(s.nth(i).to_bits() == want, "C20.seq.position_wise");
        reach!("end");
        core::mem::forget(s);
    }};
}

harnesses! {
    // ---- symbols: all 32 / 16 patterns decided by the solver
    fn c20_q_miupac_symbols [10] {
        let b = any_u8();
        assume(b < 32);
        let x = masked::Iupac::try_from_bits(b).unwrap();
        let ch = x.to_char() as u8;
        let mut m = x;
        m.mask();
        let mut u = x;
        u.unmask();
        assert!(m.to_char() as u8 == lower(ch), "C20.miupac.mask_is_lower_case");
        assert!(u.to_char() as u8 == upper(ch), "C20.miupac.unmask_is_upper_case");
        assert!(m.to_bits() == mi_mask(b) && u.to_bits() == mi_unmask(b), "C20.miupac.only_the_flag_changes");
        assert!(miupac_set(m.to_bits()) == miupac_set(b) && miupac_set(u.to_bits()) == miupac_set(b), "C20.miupac.nucleotide_set_unchanged");
        let mut mm = m;
        mm.mask();
        let mut uu = u;
        uu.unmask();
        assert!(mm == m && uu == u, "C20.miupac.idempotent");
        let mut mu = m;
        mu.unmask();
        assert!(mu == u, "C20.miupac.unmask_after_mask_is_unmask");
        // commutes with complement
        let mut a = x;
        a.mask();
        a.comp();
        let mut c = x;
        c.comp();
        c.mask();
        assert!(a == c, "C20.miupac.mask_commutes_with_complement");
        // copying forms
        assert!(x.to_mask() == m && x.to_unmask() == u, "C20.miupac.to_mask_to_unmask");
        reach!(b & 4 != 0, "masked input");
        reach!(b & 4 == 0, "unmasked input");
    }
    fn c20_q_mdna_symbols [10] {
        let b = any_u8();
        let x = masked::Dna::try_from_bits(b);
        assume(x.is_some());
        let x = x.unwrap();
        let ch = x.to_char();
        let mut m = x;
        m.mask();
        let mut u = x;
        u.unmask();
        assert!(m == u, "C20.mdna.mask_eq_unmask");
        let mut mm = m;
        mm.mask();
        assert!(mm == x, "C20.mdna.involution");
        let want: Option<char> = match ch {
            'A' => Some('a'), 'C' => Some('c'), 'G' => Some('g'), 'T' => Some('t'), 'N' => Some('n'),
            'a' => Some('A'), 'c' => Some('C'), 'g' => Some('G'), 't' => Some('T'), 'n' => Some('N'),
            '-' => Some('-'), '.' => Some('.'),
            _ => None, // the two "unknown" codes: behaviour recorded, not asserted
        };
        if let Some(wc) = want {
            assert!(m.to_char() == wc, "C20.mdna.toggles_case_fixes_gap_and_pad");
        }
        // commutes with complement
        let mut a = x;
        a.mask();
        a.comp();
        let mut c = x;
        c.comp();
        c.mask();
        assert!(a == c, "C20.mdna.mask_commutes_with_complement");
        reach!(ch == '-', "gap");
        reach!(ch == 'a', "masked a");
    }
    // ---- sequences
    fn c20_q_seq_mask_l3 [10] { seq_mask!(3, 0) }
    fn c20_q_seq_unmask_l3 [10] { seq_mask!(3, 1) }
    fn c20_q_seq_mask_rev_l3 [10] { seq_mask!(3, 2) }
    fn c20_q_seq_rev_mask_l3 [10] { seq_mask!(3, 3) }
    fn c20_q_seq_mask_comp_l2 [10] { seq_mask!(2, 4) }
    fn c20_q_seq_comp_mask_l2 [10] { seq_mask!(2, 5) }
    fn c20_q_seq_mask_l13 [15] { seq_mask!(13, 0) }
    fn c20_t_seq_unmask_l13 [15] { seq_mask!(13, 1) }
    fn c20_t_seq_mask_rev_l13 [34] { seq_mask!(13, 2) }
    fn c20_t_seq_mask_comp_l13 [15] { seq_mask!(13, 4) }
    fn c20_q_seq_to_mask_o12_n1 [10] {
        // copying form on a window whose only symbol straddles the word boundary
        let w = any_words::<2>();
        let src = arr::<masked::Iupac, 25, 2>(w);
        let win = &src[12..13];
        let r: Seq<masked::Iupac> = win.to_owned().to_mask();
        assert!(r.len() == 1, "C20.seq.length_preserved");
        assert!(r.nth(0).to_bits() == mi_mask(sym(&w, 60, 5, 0)), "C20.seq.to_mask_position_wise");
        assert!(win.nth(0).to_bits() == sym(&w, 60, 5, 0), "C20.seq.receiver_untouched");
        reach!("end");
        core::mem::forget(r);
    }
    fn c20_t_seq_mdna_mask_l16 [20] {
        // 16 four-bit symbols fill the storage word exactly; thorough tier: 390 s / 4.5 GB at unwind 20 (no verdict after 14 min at unwind 40)
        let w = any_words::<2>();
        let src = arr::<masked::Dna, 32, 2>(w);
        let mut s = owned_cap(&src, 0, 16, 16);
        s.mask();
        let i = any_usize();
        assume(i < 16);
        let old = oracle::MDNA.from_bits[sym(&w, 0, 4, i) as usize] as u8;
        let want = oracle::MDNA.from_bits[(old ^ 0b1111) as usize] as u8;
        assert!(s.len() == 16, "C20.seq.length_preserved");
        assert!(s.nth(i).to_bits() == want, "C20.seq.mdna_position_wise");
        reach!(i == 15, "last symbol of the word");
        core::mem::forget(s);
    }
    fn c20_q_seq_mdna_unmask_l2 [10] {
        // the 4-bit codec has no mask flag: unmask inverts the pattern exactly like mask (N 0000 <-> n 1111 included)
        let w = any_words::<2>();
        let src = arr::<masked::Dna, 32, 2>(w);
        let mut s = owned_cap(&src, 0, 2, 2);
        s.unmask();
        let i = any_usize();
        assume(i < 2);
        let old = oracle::MDNA.from_bits[sym(&w, 0, 4, i) as usize] as u8;
        let want = oracle::MDNA.from_bits[(old ^ 0b1111) as usize] as u8;
        assert!(s.len() == 2, "C20.seq.length_preserved");
        assert!(s.nth(i).to_bits() == want, "C20.seq.mdna_unmask_position_wise");
        reach!(sym(&w, 0, 4, i) == 0, "upper-case N");
        core::mem::forget(s);
    }
    fn c20_q_seq_mdna_mask_l2 [10] {
        let w = any_words::<2>();
        let src = arr::<masked::Dna, 32, 2>(w);
        let mut s = owned_cap(&src, 0, 2, 2);
        s.mask();
        let i = any_usize();
        assume(i < 2);
        let old = oracle::MDNA.from_bits[sym(&w, 0, 4, i) as usize] as u8;
        let want = oracle::MDNA.from_bits[(old ^ 0b1111) as usize] as u8;
        assert!(s.len() == 2, "C20.seq.length_preserved");
        assert!(s.nth(i).to_bits() == want, "C20.seq.mdna_position_wise");
        reach!("end");
        core::mem::forget(s);
    }
}
