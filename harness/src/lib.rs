//! Harness library for the solver-based checks of jeff-k/bio-seq.
//! Compiled twice: by Kani (cfg(kani), symbolic inputs, vendored flat-span
//! bitvec) and natively (replay of counterexamples, stock bitvec).
#![allow(clippy::all)]
#![allow(unused_imports, dead_code, unexpected_cfgs)]

pub mod oracle;
pub mod vx;
pub mod pre;

#[cfg(feature = "c03")]
pub mod c03;
#[cfg(feature = "c10")]
pub mod c10;
#[cfg(feature = "c13")]
pub mod c13;
#[cfg(feature = "c04")]
pub mod c04;
#[cfg(feature = "c02")]
pub mod c02;
#[cfg(feature = "c08")]
pub mod c08;
#[cfg(feature = "c11")]
pub mod c11;
#[cfg(feature = "c01")]
pub mod c01;
#[cfg(feature = "c07")]
pub mod c07;
#[cfg(feature = "c05")]
pub mod c05;
#[cfg(feature = "c09")]
pub mod c09;

/// name -> harness function, for the native replay binary
pub fn tables() -> Vec<&'static [(&'static str, fn())]> {
    let mut v: Vec<&'static [(&'static str, fn())]> = Vec::new();
    #[cfg(feature = "c03")]
    v.push(c03::TABLE);
    #[cfg(feature = "c10")]
    v.push(c10::TABLE);
    #[cfg(feature = "c13")]
    v.push(c13::TABLE);
    #[cfg(feature = "c04")]
    v.push(c04::TABLE);
    #[cfg(feature = "c02")]
    v.push(c02::TABLE);
    #[cfg(feature = "c08")]
    v.push(c08::TABLE);
    #[cfg(feature = "c11")]
    v.push(c11::TABLE);
    #[cfg(feature = "c01")]
    v.push(c01::TABLE);
    #[cfg(feature = "c07")]
    v.push(c07::TABLE);
    #[cfg(feature = "c05")]
    v.push(c05::TABLE);
    #[cfg(feature = "c09")]
    v.push(c09::TABLE);
    v
}
