//! Harness library for the solver-based checks of jeff-k/bio-seq.
//! Compiled twice: by Kani (cfg(kani), symbolic inputs, vendored flat-span
//! bitvec) and natively (replay of counterexamples, stock bitvec).
#![allow(clippy::all)]
#![allow(unused_imports, dead_code, unexpected_cfgs)]

pub mod oracle;
pub mod vx;
pub mod pre;

#[cfg(feature = "c03")]
pub mod c03;
#[cfg(feature = "c10")]
pub mod c10;
#[cfg(feature = "c13")]
pub mod c13;
#[cfg(feature = "c04")]
pub mod c04;
#[cfg(feature = "c02")]
pub mod c02;
#[cfg(feature = "c08")]
pub mod c08;
#[cfg(feature = "c11")]
pub mod c11;
#[cfg(feature = "c01")]
pub mod c01;
#[cfg(feature = "c07")]
pub mod c07;
#[cfg(feature = "c20")]
pub mod c20;
#[cfg(feature = "c12")]
pub mod c12;
#[cfg(feature = "c06")]
pub mod c06;
#[cfg(feature = "c19")]
pub mod c19;
#[cfg(feature = "c18")]
pub mod c18;
#[cfg(any(feature = "c05", feature = "c17"))]
pub mod c05;
#[cfg(feature = "c17")]
pub mod c17;
#[cfg(feature = "c16")]
pub mod c16;
#[cfg(feature = "c09")]
pub mod c09;

/// name -> harness function, for the native replay binary
pub fn tables() -> Vec<&'static [(&'static str, fn())]> {
    let mut v: Vec<&'static [(&'static str, fn())]> = Vec::new();
    #[cfg(feature = "c03")]
    v.push(c03::TABLE);
    #[cfg(feature = "c10")]
    v.push(c10::TABLE);
    #[cfg(feature = "c13")]
    v.push(c13::TABLE);
    #[cfg(feature = "c04")]
    v.push(c04::TABLE);
    #[cfg(feature = "c02")]
    v.push(c02::TABLE);
    #[cfg(feature = "c08")]
    v.push(c08::TABLE);
    #[cfg(feature = "c11")]
    v.push(c11::TABLE);
    #[cfg(feature = "c01")]
    v.push(c01::TABLE);
    #[cfg(feature = "c07")]
    v.push(c07::TABLE);
    #[cfg(feature = "c20")]
    v.push(c20::TABLE);
    #[cfg(feature = "c12")]
    v.push(c12::TABLE);
    #[cfg(feature = "c06")]
    v.push(c06::TABLE);
    #[cfg(feature = "c19")]
    v.push(c19::TABLE);
    #[cfg(feature = "c18")]
    v.push(c18::TABLE);
    #[cfg(feature = "c05")]
    v.push(c05::TABLE);
    #[cfg(feature = "c17")]
    v.push(c17::TABLE);
    #[cfg(feature = "c16")]
    v.push(c16::TABLE);
    #[cfg(feature = "c09")]
    v.push(c09::TABLE);
    v
}
