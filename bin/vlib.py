"""Shared machinery for /verif/bin/check: build the harness crate with Kani
against /repo's current working tree, run every harness through
goto-cc / goto-instrument / cbmc in a resource-capped pool, classify the
solver's verdicts, replay counterexamples natively, write evidence."""
import fcntl, glob, hashlib, json, os, re, resource, shutil, signal, subprocess, sys, tempfile, threading, time

VERIF = os.path.dirname(os.path.dirname(os.path.abspath(__file__)))
REPO = os.environ.get("VERIF_REPO", "/repo")
CACHE = os.environ.get("VERIF_CACHE", os.path.join(VERIF, ".cache"))
KANI_HOME = os.path.expanduser("~/.kani/kani-0.68.0")
KANI_LIB_C = os.path.join(KANI_HOME, "library/kani/kani_lib.c")
TRIPLE = "x86_64-unknown-linux-gnu"
NCPU = os.cpu_count() or 4

ENV = dict(os.environ)
ENV.update({"CARGO_NET_OFFLINE": "true", "CARGO_TERM_COLOR": "never"})
ENV.pop("RUSTFLAGS", None)

DEP_NOASSERT = ["bitvec", "wyz", "radium", "funty", "tap"]

ALL_FEATURES = ["c%02d" % i for i in range(1, 21)]


def log(*a):
    print(*a, file=sys.stderr, flush=True)


def sh(cmd, cwd=None, env=None, timeout=None, check=False):
    p = subprocess.run(cmd, cwd=cwd, env=env or ENV, stdout=subprocess.PIPE, stderr=subprocess.STDOUT,
                       timeout=timeout, text=True, errors="replace")
    if check and p.returncode != 0:
        raise RuntimeError("command failed (%d): %s\n%s" % (p.returncode, " ".join(cmd), p.stdout[-4000:]))
    return p.returncode, p.stdout


def repo_fingerprint():
    """hash of every source file of /repo the harness build depends on"""
    h = hashlib.sha256()
    files = []
    for root in ("bio-seq/src", "bio-seq-derive/src"):
        for dp, dn, fn in os.walk(os.path.join(REPO, root)):
            for f in fn:
                files.append(os.path.join(dp, f))
    files += [os.path.join(REPO, x) for x in ("Cargo.toml", "bio-seq/Cargo.toml", "bio-seq-derive/Cargo.toml")]
    for f in sorted(files):
        h.update(f.encode())
        try:
            h.update(open(f, "rb").read())
        except OSError:
            h.update(b"<missing>")
    return h.hexdigest()


def repo_head():
    rc, out = sh(["git", "-C", REPO, "rev-parse", "HEAD"])
    head = out.strip() if rc == 0 else "unknown"
    rc, out = sh(["git", "-C", REPO, "status", "--porcelain", "--untracked-files=no"])
    dirty = bool(out.strip()) if rc == 0 else None
    return head, dirty


# ----------------------------------------------------------------------------- workspaces

def manifest_text(cfg, kind):
    """kind: 'kani' (vendored flat-span bitvec, deps without their debug assertions)
    or 'native' (stock bitvec; replay)"""
    t = []
    t.append('[package]\nname = "bsv"\nversion = "0.0.0"\nedition = "2021"\n')
    t.append('[lib]\npath = "%s/harness/src/lib.rs"\n' % VERIF)
    if kind in ("native", "nativeflat"):
        t.append('[[bin]]\nname = "replay"\npath = "%s/harness/replay/main.rs"\n' % VERIF)
        t.append('[[bin]]\nname = "c14dump"\npath = "%s/harness/replay/c14dump.rs"\n' % VERIF)
    t.append('[dependencies]')
    t.append('bio-seq = { path = "%s/bio-seq", features = ["translation", "extra_codecs", "serde"] }' % REPO)
    t.append('bitvec = "1"\nbincode = "1.3"\nserde = "1"\n')
    t.append('[features]')
    for f in ALL_FEATURES:
        t.append('%s = []' % f)
    t.append('all = [%s]\n' % ", ".join('"%s"' % f for f in ALL_FEATURES))
    t.append('[workspace]\n')
    t.append('[lints.rust]\nunexpected_cfgs = { level = "allow" }\n')
    if kind == "nativeflat":
        t.append('[patch.crates-io]\nbitvec = { path = "%s/vendor/bitvec-1.1.1-flatspan" }\n' % VERIF)
    if kind in ("native", "nativeflat") and False:
        pass
    if kind == "kani":
        t.append('[patch.crates-io]\nbitvec = { path = "%s/vendor/bitvec-1.1.1-flatspan" }\n' % VERIF)
        for d in DEP_NOASSERT:
            t.append('[profile.dev.package.%s]\ndebug-assertions = false\noverflow-checks = false' % d)
        if cfg == "daoff":
            t.append('[profile.dev.package.bio-seq]\ndebug-assertions = false\noverflow-checks = false')
            t.append('[profile.dev.build-override]\ndebug-assertions = false\noverflow-checks = false')
    return "\n".join(t) + "\n"


def ensure_ws(cfg, kind):
    d = os.path.join(CACHE, "ws-%s-%s" % (kind, cfg))
    os.makedirs(d, exist_ok=True)
    want = manifest_text(cfg, kind)
    mf = os.path.join(d, "Cargo.toml")
    if not os.path.exists(mf) or open(mf).read() != want:
        open(mf, "w").write(want)
    lock = os.path.join(d, "Cargo.lock")
    if not os.path.exists(lock):
        shutil.copy(os.path.join(REPO, "Cargo.lock"), lock)
    return d


class WsLock:
    def __init__(self, d):
        self.path = os.path.join(d, ".verif.lock")

    def __enter__(self):
        self.f = open(self.path, "w")
        fcntl.flock(self.f, fcntl.LOCK_EX)
        return self

    def __exit__(self, *a):
        fcntl.flock(self.f, fcntl.LOCK_UN)
        self.f.close()


def force_rebuild_if_repo_changed(ws):
    """cargo decides by mtime; make content changes (git apply / checkout) certain to be seen"""
    fp = repo_fingerprint()
    stamp = os.path.join(ws, ".repo-fingerprint")
    old = open(stamp).read() if os.path.exists(stamp) else ""
    if old != fp:
        now = time.time()
        for f in ("bio-seq/src/lib.rs", "bio-seq-derive/src/lib.rs"):
            try:
                os.utime(os.path.join(REPO, f), (now, now))
            except OSError:
                pass
        open(stamp, "w").write(fp)
    return fp


KANI_CODEGEN_FLAGS = ["-Z", "unstable-options", "--no-memory-safety-checks", "--no-overflow-checks",
                      "--no-assertion-reach-checks", "-Z", "stubbing"]


def kani_codegen(cfg, feature, patterns, scratch):
    """compile the harness crate with kani-compiler against /repo; copy the goto
    binaries of the selected harnesses into scratch; return harness records"""
    ws = ensure_ws(cfg, "kani")
    t0 = time.time()
    with WsLock(ws):
        fp = force_rebuild_if_repo_changed(ws)
        base = os.path.join(ws, "target/kani", TRIPLE, "debug")
        shutil.rmtree(os.path.join(base, "build/bsv"), ignore_errors=True)
        for f in glob.glob(os.path.join(base, ".fingerprint/bsv-*")):
            shutil.rmtree(f, ignore_errors=True)
        cmd = ["cargo", "kani", "--only-codegen", "--features", feature] + KANI_CODEGEN_FLAGS
        for p in patterns:
            cmd += ["--harness", p]
        rc, out = sh(cmd, cwd=ws)
        if rc != 0:
            return None, out, time.time() - t0, fp
        metas = glob.glob(os.path.join(base, "build/bsv/*/out/*.kani-metadata.json"))
        if len(metas) != 1:
            return None, "expected one metadata file, found %r\n%s" % (metas, out[-3000:]), time.time() - t0, fp
        meta = json.load(open(metas[0]))
        recs = []
        for h in meta["proof_harnesses"]:
            name = h["pretty_name"].split("::")[-1]
            if not any(p in h["pretty_name"] for p in patterns):
                continue
            src = h["goto_file"]
            if not os.path.exists(src):
                continue
            dst = os.path.join(scratch, "%s-%s.symtab.out" % (cfg, name))
            shutil.copy(src, dst)
            recs.append({"name": name, "pretty": h["pretty_name"], "cfg": cfg, "mangled": h["mangled_name"], "symtab": dst,
                         "unwind": h["attributes"].get("unwind_value"),
                         "stubs": [s.get("original", "") + "->" + s.get("replacement", "") for s in h["attributes"].get("stubs", [])],
                         "lines": [h["original_start_line"], h["original_end_line"]],
                         "file": h["original_file"]})
    return recs, out, time.time() - t0, fp


# ----------------------------------------------------------------------------- running one harness

CBMC_FLAGS = ["--no-malloc-may-fail", "--no-undefined-shift-check", "--no-signed-overflow-check",
              "--no-bounds-check", "--no-pointer-check", "--no-div-by-zero-check",
              "--no-self-loops-to-assumptions", "--no-pointer-primitive-check", "--object-bits", "16",
              "--sat-solver", "cadical", "--slice-formula"]


def _limits(mem_gb):
    def f():
        b = int(mem_gb * (1 << 30))
        resource.setrlimit(resource.RLIMIT_AS, (b, b))
        os.setsid()
    return f


def run_capped(cmd, out_path, mem_gb, timeout):
    """run cmd with an address-space cap and a wall-clock cap; returns (rc|'timeout', wall_s, maxrss_kb)"""
    t0 = time.time()
    with open(out_path, "wb") as o:
        p = subprocess.Popen(cmd, stdout=o, stderr=subprocess.STDOUT, preexec_fn=_limits(mem_gb), env=ENV)
        timed_out = False
        try:
            _, status, ru = _wait4(p, timeout)
        except TimeoutError:
            timed_out = True
            try:
                os.killpg(p.pid, signal.SIGKILL)
            except ProcessLookupError:
                pass
            _, status, ru = os.wait4(p.pid, 0)
        p.returncode = 0  # reaped by us
    wall = time.time() - t0
    if timed_out:
        return "timeout", wall, ru.ru_maxrss
    if os.WIFSIGNALED(status):
        return -os.WTERMSIG(status), wall, ru.ru_maxrss
    return os.WEXITSTATUS(status), wall, ru.ru_maxrss


def _wait4(p, timeout):
    end = time.time() + timeout
    while True:
        pid, status, ru = os.wait4(p.pid, os.WNOHANG)
        if pid != 0:
            return pid, status, ru
        if time.time() > end:
            raise TimeoutError()
        time.sleep(0.05)


STAT_RE = {
    "symex_s": re.compile(r"Runtime Symex: ([0-9.e+-]+)s"),
    "steps": re.compile(r"size of program expression: (\d+) steps"),
    "vccs": re.compile(r"Generated (\d+) VCC\(s\), (\d+) remaining after simplification"),
    "vars_clauses": re.compile(r"(\d+) variables, (\d+) clauses"),
    "solver_s": re.compile(r"Runtime Solver: ([0-9.e+-]+)s"),
    "decision_s": re.compile(r"Runtime decision procedure: ([0-9.e+-]+)s"),
}


def parse_cbmc_json(path):
    """returns (results list | None, stats dict, error text)"""
    raw = open(path, "rb").read().decode("utf-8", "replace")
    stats = {"symex_s": 0.0, "steps": 0, "vccs": 0, "vccs_remaining": 0, "variables": 0, "clauses": 0,
             "solver_s": 0.0, "decision_s": 0.0, "solver_calls": 0}
    try:
        doc = json.loads(raw)
    except Exception as e:
        # truncated output (timeout / OOM): recover statistics from the text
        doc = None
    results = None
    errors = []
    texts = []
    if doc is not None:
        for m in doc:
            if not isinstance(m, dict):
                continue
            if "result" in m:
                results = m["result"]
            if m.get("messageType") == "ERROR":
                errors.append(m.get("messageText", ""))
            if "messageText" in m:
                texts.append(m["messageText"])
    else:
        texts = re.findall(r'"messageText": "([^"]*)"', raw)
    for t in texts:
        m = STAT_RE["symex_s"].search(t)
        if m:
            stats["symex_s"] += float(m.group(1))
        m = STAT_RE["steps"].search(t)
        if m:
            stats["steps"] = int(m.group(1))
        m = STAT_RE["vccs"].search(t)
        if m:
            stats["vccs"], stats["vccs_remaining"] = int(m.group(1)), int(m.group(2))
        m = STAT_RE["vars_clauses"].search(t)
        if m:
            stats["variables"] = max(stats["variables"], int(m.group(1)))
            stats["clauses"] = max(stats["clauses"], int(m.group(2)))
        m = STAT_RE["solver_s"].search(t)
        if m:
            stats["solver_s"] += float(m.group(1))
            stats["solver_calls"] += 1
        m = STAT_RE["decision_s"].search(t)
        if m:
            stats["decision_s"] += float(m.group(1))
    return results, stats, "; ".join(errors)


def inputs_from_trace(trace):
    """the values of the harness's kani::any() calls, in call order, as little-endian byte lists
    (the same information Kani's concrete playback prints): the first assignment to `var_0`
    inside each activation of kani::any_raw_internal::<T>"""
    vals = []
    for st in trace:
        if st.get("stepType") != "assignment" or st.get("lhs") != "var_0":
            continue
        fn = st.get("sourceLocation", {}).get("function", "")
        if not fn.startswith("kani::any_raw_internal::<"):
            continue
        v = st.get("value", {})
        b = v.get("binary")
        if b is None or len(b) % 8 != 0:
            return None
        n = int(b, 2)
        vals.append([(n >> (8 * i)) & 0xFF for i in range(len(b) // 8)])
    return vals


def prop_class(name):
    parts = name.split(".")
    return parts[-2] if len(parts) >= 2 else "unknown"


def classify(results, expect_panic):
    """Kani-style interpretation of CBMC's per-property verdicts.
    returns dict(status, failures=[...], covers={...}, n_props, n_success)"""
    covers = {}
    failures = []
    undetermined = []
    n_ok = 0
    n = 0
    marker_ok = None
    for r in results:
        name = r.get("property", "")
        cls = prop_class(name)
        st = r.get("status", "")
        desc = r.get("description", "").strip().strip('"')
        if "MARKER" in desc:
            # Kani shows the unexpanded `concat!("MARKER ", ..)` source text
            desc = "MARKER " + desc.replace('concat! ("MARKER ", "', "").replace('concat!("MARKER ", "', "").rstrip('")')
        loc = r.get("sourceLocation", {})
        where = "%s:%s" % (loc.get("file", "?"), loc.get("line", "?"))
        if cls == "cover":
            covers["%s @%s" % (desc, loc.get("line", "?"))] = (st == "FAILURE")
            continue
        n += 1
        if st == "SUCCESS":
            n_ok += 1
            if desc.startswith("MARKER"):
                marker_ok = True if marker_ok is None else marker_ok
            continue
        if st != "FAILURE":
            undetermined.append({"property": name, "status": st, "description": desc})
            continue
        if cls == "unwind":
            undetermined.append({"property": name, "status": "UNWIND-BOUND-TOO-SMALL", "description": desc, "where": where})
        elif cls == "unsupported_construct":
            undetermined.append({"property": name, "status": "UNSUPPORTED-CONSTRUCT", "description": desc, "where": where})
        else:
            if desc.startswith("MARKER"):
                marker_ok = False
            failures.append({"property": name, "class": cls, "description": desc, "where": where,
                             "function": loc.get("function", "")})
    out = {"n_props": n, "n_success": n_ok, "covers": covers, "undetermined": undetermined}
    if expect_panic:
        # the call under test must panic: every failure except the MARKER is the expected
        # panic; the MARKER assertion must hold (= unreachable) and a panic must exist
        real = [f for f in failures if f["description"].startswith("MARKER")]
        expected = [f for f in failures if not f["description"].startswith("MARKER")]
        out["expected_panics"] = len(expected)
        out["failures"] = real
        if not real and not expected and not undetermined:
            undetermined.append({"property": "-", "status": "NO-PANIC-AND-NO-MARKER", "description":
                                 "call neither panics nor reaches the marker (vacuous)"})
    else:
        out["failures"] = failures
    unsat_covers = [k for k, v in covers.items() if not v]
    if undetermined:
        out["status"] = "inconclusive"
    elif out["failures"]:
        out["status"] = "counterexample"
    elif unsat_covers:
        out["status"] = "inconclusive"
        out["undetermined"] = [{"property": k, "status": "COVER-UNSATISFIED", "description": "vacuity witness not reachable"} for k in unsat_covers]
    else:
        out["status"] = "held"
    return out


UNWIND_FILE = os.path.join(VERIF, "harness", "unwind.json")
_unwind_cache = None


def calibrated_unwind(name):
    """smallest unwind bound known to pass the unwinding assertions of this harness on the
    reference tree (harness/unwind.json, written by `bin/check <ID> --calibrate`); the
    #[kani::unwind] attribute in the source is the upper bound that is tried on failure"""
    global _unwind_cache
    if _unwind_cache is None:
        try:
            _unwind_cache = json.load(open(UNWIND_FILE))
        except Exception:
            _unwind_cache = {}
    return _unwind_cache.get(name)


def run_harness(rec, scratch, mem_gb, timeout, calibrate=False):
    """run one harness; start from the calibrated unwind bound and fall back to larger bounds
    (up to the attribute's value) whenever an unwinding assertion fails, so a bound that is
    too small is never reported as success"""
    top = rec["unwind"]
    if top is None:
        return run_harness_once(rec, scratch, mem_gb, timeout, None)
    cal = calibrated_unwind(rec["name"])
    ladder = [n for n in (2, 3, 4, 5, 6, 7, 8, 10, 12, 16, 20, 24, 34, 48, 67, 131) if n < top] + [top]
    if calibrate:
        tries = ladder
    elif cal is not None and cal < top:
        # calibrated bound first; if the code under test now needs more, go straight to the
        # attribute's bound (one retry) rather than climbing the whole ladder
        tries = [cal, top]
    else:
        tries = [top]
    res = None
    spent = 0.0
    for n in tries:
        res = run_harness_once(rec, scratch, mem_gb, timeout, n, keep_symtab=(n != tries[-1]))
        spent += res.get("wall_s", 0)
        res["unwind_used"] = n
        res["unwind_attr"] = top
        too_small = any(u.get("status") == "UNWIND-BOUND-TOO-SMALL" for u in res.get("undetermined", []))
        if not too_small:
            break
    try:
        os.unlink(rec["symtab"])
    except OSError:
        pass
    res["wall_s"] = round(spent, 2)
    return res


def run_harness_once(rec, scratch, mem_gb, timeout, unwind, keep_symtab=False):
    """goto-cc / goto-instrument / cbmc for one harness; returns result record"""
    name, cfg = rec["name"], rec["cfg"]
    out = os.path.join(scratch, "%s-%s.out" % (cfg, name))
    logp = os.path.join(scratch, "%s-%s.json" % (cfg, name))
    t0 = time.time()
    steps = [
        ["goto-cc", rec["symtab"], KANI_LIB_C, "-o", out],
        ["goto-cc", out, "--function", rec["mangled"], "-o", out],
        ["goto-instrument", "--add-library", "--no-malloc-may-fail", out, out],
        ["goto-instrument", "--generate-function-body-options", "assert-false-assume-false",
         "--generate-function-body", ".*", "--drop-unused-functions", out, out],
        ["goto-instrument", "--ensure-one-backedge-per-target", out, out],
    ]
    res = {"name": name, "pretty": rec.get("pretty", name), "cfg": cfg, "unwind": unwind, "stubs": rec["stubs"]}
    for s in steps:
        rc, o = sh(s)
        if rc != 0:
            res.update(status="inconclusive", reason="%s failed: %s" % (s[0], o[-500:]), wall_s=time.time() - t0)
            return res
    cmd = ["cbmc"] + CBMC_FLAGS[:-1]
    if unwind is not None:
        cmd += ["--unwind", str(unwind)]
    cmd += ["--slice-formula", out, "--verbosity", "8", "--json-ui"]
    rc, wall, rss = run_capped(cmd, logp, mem_gb, timeout)
    results, stats, err = parse_cbmc_json(logp)
    res.update(stats)
    res.update(wall_s=round(time.time() - t0, 2), cbmc_wall_s=round(wall, 2), peak_rss_mb=rss // 1024, cbmc_rc=rc)
    def _cleanup():
        for f in ((out,) if keep_symtab else (out, rec["symtab"])):
            try:
                os.unlink(f)
            except OSError:
                pass
    if rc == "timeout":
        _cleanup()
        res.update(status="inconclusive", reason="wall-clock cap %ds reached" % timeout)
        return res
    if results is None:
        _cleanup()
        res.update(status="inconclusive", reason="cbmc gave no result list (rc=%s, out of memory under the %s GB cap?) %s" % (rc, mem_gb, err))
        return res
    c = classify(results, name.endswith("_xp"))
    res.update(c)
    if c["status"] == "counterexample" and os.path.exists(out):
        # same query again with --trace: concrete values of the symbolic inputs per failing check
        tcmd = cmd[:-3] + ["--trace", "--verbosity", "4", "--json-ui"]
        tlog = logp + ".trace"
        trc, twall, trss = run_capped(tcmd, tlog, mem_gb, timeout)
        cex = []
        try:
            doc = json.load(open(tlog))
            for m in doc:
                if isinstance(m, dict) and "result" in m:
                    for r in m["result"]:
                        if r.get("status") == "FAILURE" and "trace" in r and prop_class(r.get("property", "")) not in ("cover", "unwind"):
                            vals = inputs_from_trace(r["trace"])
                            if vals is not None:
                                cex.append({"property": r.get("property"), "description": r.get("description", "").strip().strip('"'), "inputs": vals})
        except Exception:
            pass
        res["cex"] = cex
        try:
            os.unlink(tlog)
        except OSError:
            pass
    for f in ((out,) if keep_symtab else (out, rec["symtab"])):
        try:
            os.unlink(f)
        except OSError:
            pass
    try:
        os.unlink(logp)
    except OSError:
        pass
    return res


def run_pool(recs, scratch, opts_for, total_mem_gb, max_jobs, progress=None, calibrate=False):
    """memory-budgeted pool: start heaviest first, never exceed total_mem_gb of caps"""
    # scheduling budget = 0.6 x the address-space cap (measured peaks stay well below the caps)
    pending = sorted(recs, key=lambda r: -opts_for(r)["mem_gb"])
    BUD = 0.6
    results = []
    lock = threading.Lock()
    cv = threading.Condition(lock)
    state = {"mem": 0.0, "jobs": 0}

    def worker(rec, o):
        try:
            r = run_harness(rec, scratch, o["mem_gb"], o["timeout"], calibrate)
        except Exception as e:  # never lose a harness silently
            r = {"name": rec["name"], "cfg": rec["cfg"], "status": "inconclusive", "reason": "driver error: %r" % e}
        with cv:
            state["mem"] -= 0.6 * o["mem_gb"]
            state["jobs"] -= 1
            results.append(r)
            if progress:
                progress(r)
            cv.notify_all()

    threads = []
    with cv:
        while pending:
            started = False
            for i, rec in enumerate(pending):
                o = opts_for(rec)
                if state["jobs"] < max_jobs and (state["mem"] + BUD * o["mem_gb"] <= total_mem_gb or state["jobs"] == 0):
                    pending.pop(i)
                    state["mem"] += BUD * o["mem_gb"]
                    state["jobs"] += 1
                    t = threading.Thread(target=worker, args=(rec, o))
                    t.start()
                    threads.append(t)
                    started = True
                    break
            if not started:
                cv.wait()
    for t in threads:
        t.join()
    return results


# ----------------------------------------------------------------------------- counterexample replay

PLAYBACK_RE = re.compile(r"fn (kani_concrete_playback_\w+)\(\)\s*\{(.*?)\n\}", re.S)


def kani_concrete_values(cfg, feature, harness, timeout, unwind=None):
    """re-run one harness under `cargo kani -Z concrete-playback` and parse the printed
    byte vectors; returns list of (testname, [bytes...]) one per failing check"""
    ws = ensure_ws(cfg, "kani")
    with WsLock(ws):
        cmd = ["cargo", "kani", "--features", feature, "--harness", harness, "--exact"] + KANI_CODEGEN_FLAGS + \
              ["-Z", "concrete-playback", "--concrete-playback=print"]
        if unwind is not None:
            cmd += ["--unwind", str(unwind)]  # same bound as the run that produced the counterexample
        try:
            rc, out = sh(cmd, cwd=ws, timeout=timeout)
        except subprocess.TimeoutExpired:
            return [], "concrete playback run timed out"
    tests = []
    for m in PLAYBACK_RE.finditer(out):
        body = m.group(2)
        vals = []
        for vm in re.finditer(r"^\s*vec!\[([0-9,\s]*)\],?\s*$", body, re.M):
            nums = [int(x) for x in vm.group(1).replace(" ", "").split(",") if x != ""]
            vals.append(nums)
        tests.append((m.group(1), vals))
    return tests, out


def build_replay(profile_release, binname="replay", feature="all"):
    ws = ensure_ws("daon", "native")
    with WsLock(ws):
        force_rebuild_if_repo_changed(ws)
        cmd = ["cargo", "build", "--offline", "--features", feature, "--bin", binname]
        if profile_release:
            cmd.append("--release")
        rc, out = sh(cmd, cwd=ws)
        if rc != 0:
            return None, out
        built = os.path.join(ws, "target", "release" if profile_release else "debug", binname)
        # private copy: another check may rebuild the binary with different features
        priv = os.path.join(tempfile.gettempdir(), "verif-bin-%d-%s-%s" % (os.getpid(), binname, "rel" if profile_release else "dbg"))
        shutil.copy(built, priv)
        return priv, out


def run_replay(binary, harness, vals, timeout=120):
    arg = ",".join("".join("%02x" % b for b in v) for v in vals)
    try:
        p = subprocess.run([binary, harness, arg], stdout=subprocess.PIPE, stderr=subprocess.STDOUT, text=True,
                           timeout=timeout, errors="replace")
    except subprocess.TimeoutExpired:
        return "timeout", ""
    return p.returncode, p.stdout.strip()
