#!/usr/bin/env python3
"""Regenerates /verif/MANIFEST.json from bin/props.py (claimed checks) and the
not-applicable table below, and validates it against the schema when
jsonschema is importable."""
import json, os, sys
sys.path.insert(0, os.path.dirname(os.path.abspath(__file__)))
import props

VERIF = os.path.dirname(os.path.dirname(os.path.abspath(__file__)))
ALL = ["C%02d" % i for i in range(1, 21)]

NOT_APPLICABLE = {
    "C15": "CodonTable is two std HashMaps with RandomState: every construction reaches the getrandom foreign function "
           "(unsupported by Kani) and SipHash-per-bit + hashbrown SIMD probing with symbolic seeds does not finish "
           "(10 min / 6 GB for a one-entry table; re-probed with RandomState::new stubbed by symbolic keys: a two-entry HashMap<u8,u8> "
           "lookup alone gave no verdict in 600 s); the order-independence clause quantifies over exactly those seeds. "
           "The solver-decidable ingredient (Hash/Eq/Borrow agreement of Seq and SeqSlice across offsets) is claimed under C02.",
}
PENDING = "check not built yet in this session (DESIGN.md section 4 describes the planned harnesses)"

m = {
    "version": 1,
    "setup_cmd": "bin/setup",
    "hooks": {
        "guard": "bio_seq_verif",
        "enable": "no source hooks are needed: harnesses build pre-states through public fields/constructors of bio-seq "
                  "(SeqArray{_p,ba}, Kmer{_p,bs}, From<Bv> for Seq); the guard name is reserved and unused",
        "baseline_off_cmd": "cd /repo && cargo test --workspace --no-fail-fast --offline",
        "source_commits": [],
        "add_only": True,
    },
    "engines": [
        {"name": "smt-z3-cvc5", "path": "bin/c14stage.py", "serves_properties": ["C14"],
         "kind_free_text": "SMT-LIB encoding regenerated from /repo's source on every run, decided by z3 and cross-checked with cvc5; tied to the real functions by exhaustive native replay"},
        {"name": "kani-cbmc", "path": "bin/check", "serves_properties": sorted(k for k, v in props.PROPS.items() if v.get("ready", True)),
         "kind_free_text": "bounded model checking of the compiled Rust code (Kani 0.68 -> GOTO -> CBMC 6.11 / CaDiCaL), "
                           "native replay of counterexamples"},
    ],
    "checks": [],
    "notes": "Every check: exit 0 held / exit 1 VIOLATION (replay-confirmed natively against /repo, not a listed finding) / exit 2 inconclusive. "
             "known_findings.jsonl lists nine defects found on the pinned tree, all repaired by fix: commits in /repo (entries are 'fixed', nothing is suppressed). "
             "Partial claims, stated in each check's evidence and in DESIGN.md 6 / 9.4: C18 decides the k-mer/bincode quarter only (JSON not applicable, owned "
             "sequences not reached); C19 decides conversions and symbol maps, trimming is exercised on concrete inputs only; C12 decides borrowed |/& on one-symbol "
             "operands in quick (two symbols in thorough) plus owned operands and contains; C16/C17 decide the data dimension per generated program, the program "
             "dimension is a generated family; C06/C01 cover histories / long inputs by a single inductive step. C15 is not applicable (std HashMap).",
    "not_applicable": [],
}
for pid in ALL:
    if pid in props.PROPS and props.PROPS[pid].get("ready", True):
        P = props.PROPS[pid]
        m["checks"].append({
            "property_id": pid,
            "quick_cmd": "bin/check %s --tier quick" % pid,
            "thorough_cmd": "bin/check %s --tier thorough" % pid,
            "evidence_file": "evidence/%s.json" % pid,
            "replay_cmd_template": "bin/check %s --replay {path}" % pid,
            "engine": P.get("engine", "kani-cbmc"),
            "level_claimed": {"category": P.get("level", "model_checking"),
                              "text": P.get("level_text", "bounded model checking: the solver decides each harness assertion for all values "
                                            "of the symbolic inputs within the stated bounds; unwinding assertions on"),
                              "design_ref": "DESIGN.md sections 4 (%s, plan) and 9.4 (as built)" % pid},
            "level_note": P.get("level_note", "trusted: Kani/CBMC/CaDiCaL, the vendored flat-span bitvec model (validated by the repo "
                                              "suite + differential test), the oracle tables; memory safety of unsafe blocks not claimed"),
            "technique": P.get("technique", "Kani/CBMC bounded model checking of the real code with symbolic inputs; native replay of counterexamples"),
        })
    else:
        m["not_applicable"].append({"property_id": pid, "reason": NOT_APPLICABLE.get(pid, PENDING)})
json.dump(m, open(os.path.join(VERIF, "MANIFEST.json"), "w"), indent=1)
try:
    import jsonschema
    jsonschema.validate(m, json.load(open("/root/.vp/MANIFEST.schema.json")))
    print("MANIFEST.json valid;", len(m["checks"]), "checks")
except ImportError:
    print("MANIFEST.json written (jsonschema not importable here);", len(m["checks"]), "checks")
