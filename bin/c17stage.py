"""C17 compile-outcome stage: the declaration family (fixed + VERIF_SEED-random)
is rendered to source and compiled with the REAL derive from /repo.

* every well-formed declaration must compile, in the dev profile and (because
  the derive's width computation runs inside the compiler) in the release
  profile; `const` assertions pin BITS, and a generated native test compares
  every decoder against the generator's tables for all 256 bytes (this part is
  plain execution, used for the seed-random declarations that have no Kani
  harness; the fixed family additionally has solver harnesses in c17.rs)
* every malformed declaration must be rejected by the compiler."""
import json, os, re, shutil, subprocess, time
import vlib, gen_c17


def _crate(dirpath, name, body, with_tests=False):
    os.makedirs(os.path.join(dirpath, "src"), exist_ok=True)
    open(os.path.join(dirpath, "Cargo.toml"), "w").write(
        '[package]\nname = "%s"\nversion = "0.0.0"\nedition = "2021"\n\n[dependencies]\n'
        'bio-seq = { path = "%s/bio-seq" }\n\n[workspace]\n\n[lints.rust]\nunexpected_cfgs = { level = "allow" }\n' % (name, vlib.REPO))
    lock = os.path.join(vlib.REPO, "Cargo.lock")
    if os.path.exists(lock):
        shutil.copy(lock, os.path.join(dirpath, "Cargo.lock"))
    open(os.path.join(dirpath, "src/lib.rs"), "w").write(body)


def _wellformed_source(F):
    lines = ["#![allow(dead_code, non_camel_case_types, unreachable_patterns)]", ""]
    index = {}
    for d in F:
        start = len(lines) + 1
        lines.append("pub mod m_%s {" % d["name"].lower())
        lines.append("    use bio_seq::prelude::*;")
        for l in gen_c17.render_enum(d).splitlines():
            lines.append("    " + l)
        n = d["name"]
        bits = gen_c17.expected_bits(d)
        lines.append("    const _: () = assert!(<%s as Codec>::BITS == %d);" % (n, bits))
        # native exhaustive law test against the generator's tables
        rows = [(v[2], v[3] or v[0][0]) for v in d["variants"]]
        alts = [(a[1], v[2]) for v in d["variants"] for a in v[4]]
        lines.append("    #[test]")
        lines.append("    fn laws() {")
        lines.append("        let rows: &[(u8, u8)] = &[%s];" % ", ".join("(%d, %d)" % (c, ord(ch)) for c, ch in rows))
        lines.append("        let alts: &[(u8, u8)] = &[%s];" % ", ".join("(%d, %d)" % a for a in alts))
        lines.append("        for b in 0..=255u8 {")
        lines.append("            let canon = rows.iter().find(|r| r.0 == b).map(|r| r.0).or(alts.iter().find(|a| a.0 == b).map(|a| a.1));")
        lines.append("            assert_eq!(%s::try_from_bits(b).map(|x| x.to_bits()), canon, \"try_from_bits({b})\");" % n)
        lines.append("            if let Some(c) = canon { assert_eq!(%s::unsafe_from_bits(b).to_bits(), c); }" % n)
        lines.append("            let by_char = rows.iter().find(|r| r.1 == b).map(|r| r.0);")
        lines.append("            assert_eq!(%s::try_from_ascii(b).map(|x| x.to_bits()), by_char, \"try_from_ascii({b})\");" % n)
        lines.append("            if let Some(c) = by_char { assert_eq!(%s::unsafe_from_ascii(b).to_bits(), c); assert_eq!(%s::try_from_bits(c).unwrap().to_char() as u8, b); }" % (n, n))
        lines.append("        }")
        lines.append("        let items: Vec<u8> = %s::items().map(|x| x.to_bits()).collect();" % n)
        lines.append("        assert_eq!(items, rows.iter().map(|r| r.0).collect::<Vec<u8>>());")
        lines.append("    }")
        lines.append("}")
        index[d["name"]] = (start, len(lines))
    return "\n".join(lines) + "\n", index


def _cargo(args, cwd, target, timeout=900):
    env = dict(vlib.ENV)
    env["CARGO_TARGET_DIR"] = target
    p = subprocess.run(["cargo"] + args, cwd=cwd, env=env, stdout=subprocess.PIPE, stderr=subprocess.STDOUT, text=True, timeout=timeout, errors="replace")
    return p.returncode, p.stdout


def _blame(out, index):
    """map compiler error locations (src/lib.rs:LINE) to declarations"""
    bad = set()
    for m in re.finditer(r"src/lib\.rs:(\d+)", out):
        ln = int(m.group(1))
        for name, (a, b) in index.items():
            if a <= ln <= b:
                bad.add(name)
    return sorted(bad)


def _replay_file(name, payload):
    rp = os.path.join(vlib.VERIF, "evidence", "replays", "C17")
    os.makedirs(rp, exist_ok=True)
    path = os.path.join(rp, name + ".json")
    payload = dict(payload)
    payload["kind"] = "c17"
    payload["how"] = "put `source` into a crate that depends on /repo/bio-seq and run `cargo %s`" % payload.get("cargo", "check")
    json.dump(payload, open(path, "w"), indent=1)
    return path


def stage(tier, seed, scratch):
    t0 = time.time()
    R = {"name": "c17-compile", "status": "held", "lines": [], "violations": []}
    F = gen_c17.fixed_family() + gen_c17.random_family(seed, 6 if tier == "quick" else 24)
    if tier == "thorough":
        # every maximal discriminant 1..=255 for the default-width rule
        for m in range(1, 256):
            F.append(gen_c17.mk("DefW%d" % m, None, [("A", "0", 0, None, []), ("B", str(m), m, None, [])]))
    src, index = _wellformed_source(F)
    wf = os.path.join(scratch, "c17-wellformed")
    _crate(wf, "c17wf", src)
    target = os.path.join(vlib.CACHE, "c17-target")
    programs = 0
    profiles = [("dev", []), ("release", ["--release"])]
    for pname, flag in profiles:
        rc, out = _cargo(["test", "--offline", "--lib"] + flag, wf, target)
        programs += len(F)
        if rc != 0:
            blamed = _blame(out, index)
            failed_tests = re.findall(r"^test m_(\w+)::laws \.\.\. FAILED", out, re.M)
            if not blamed and not failed_tests:
                R.update(status="inconclusive", detail="well-formed family failed to build/test (%s) but no declaration could be blamed:\n%s" % (pname, out[-2500:]))
                return R
            for n in blamed:
                d = [x for x in F if x["name"] == n][0]
                msg = " ".join(l.strip() for l in out.splitlines() if "error" in l or "panicked" in l)[:400]
                path = _replay_file("wellformed-%s-%s" % (n, pname), {"declaration": n, "profile": pname, "cargo": "check" + (" --release" if flag else ""),
                                                                      "source": gen_c17.crate_source(gen_c17.render_enum(d)), "compiler_output": msg})
                R["violations"].append({"harness": "c17_compile_%s" % n.lower(), "tag": "C17.wellformed_declaration_rejected.%s" % pname, "replay": path})
            for n in failed_tests:
                d = [x for x in F if x["name"].lower() == n][0]
                path = _replay_file("laws-%s-%s" % (n, pname), {"declaration": d["name"], "profile": pname, "cargo": "test",
                                                                "source": src[:0] + gen_c17.crate_source(gen_c17.render_enum(d)), "output": out[-1500:]})
                R["violations"].append({"harness": "c17_laws_%s" % n, "tag": "C17.native_laws.%s" % pname, "replay": path})
    # malformed declarations must not compile
    rejected = 0
    for name, body in gen_c17.MALFORMED:
        d = os.path.join(scratch, "c17-bad-%s" % name)
        _crate(d, "c17bad", gen_c17.crate_source(body))
        rc, out = _cargo(["check", "--offline"], d, target)
        programs += 1
        if rc == 0:
            path = _replay_file("malformed-%s" % name, {"declaration": name, "source": gen_c17.crate_source(body), "cargo": "check"})
            R["violations"].append({"harness": "c17_malformed_%s" % name, "tag": "C17.malformed_declaration_accepted", "replay": path})
        else:
            rejected += 1
            if "error" not in out:
                R.update(status="inconclusive", detail="cargo failed without a compiler error for %s: %s" % (name, out[-800:]))
                return R
    if R["violations"]:
        R["status"] = "violation"
    R["programs"] = programs
    R["evaluations"] = programs
    R["distinct_nontrivial"] = len(F) + len(gen_c17.MALFORMED)
    R["samples"] = [{"declaration": gen_c17.render_enum(F[i]).replace("\n", " ")[:300], "expected_bits": gen_c17.expected_bits(F[i])} for i in (8, 12, len(F) - 1)]
    R["lines"].append("[C17] %d well-formed declarations compiled and law-tested natively in dev+release, %d/%d malformed rejected"
                      % (len(F), rejected, len(gen_c17.MALFORMED)))
    R["wall_s"] = round(time.time() - t0, 1)
    return R
