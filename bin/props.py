"""Property registry: which harnesses decide which property, at which bounds."""

COMMON_ASSUMPTIONS = [
    "Kani 0.68.0 translation of MIR to GOTO and CBMC 6.11.0 / CaDiCaL are sound",
    "dependency model: harness build uses /verif/vendor/bitvec-1.1.1-flatspan (untagged BitSpan encoding under cfg(kani)); "
    "validated by running /repo's own 93 tests and a differential test against stock bitvec (bin/validate-bitvec)",
    "bitvec/wyz/radium/funty/tap are compiled without their own debug assertions in the symbolic build",
    "the 'debug assertions off' configuration (daoff) switches off debug_assert! in bio-seq and the derive, but Kani always compiles with "
    "-C overflow-checks=on: arithmetic overflow is a reported panic in both configurations and the wrap-around behaviour of release builds is not explored",
    "memory safety of unsafe blocks is not claimed (CBMC pointer/bounds checks off); Rust panics, overflow asserts and debug_assert! are modelled",
    "counterexamples are only reported after they reproduce natively against /repo with the stock bitvec (dev and release profile)",
]

TRUSTED_BASE = ["rustc nightly-2026-08-21 (Kani's pinned toolchain)", "kani-compiler 0.68.0", "CBMC 6.11.0", "CaDiCaL 3.0.0",
                "vendored bitvec flat-span patch", "harness/src/oracle.rs (documented alphabets, NCBI table 1 verbatim)"]

DAON = "daon"
DAOFF = "daoff"


def tiers(pid, quick_cfgs=(DAON,), thorough_cfgs=(DAON, DAOFF)):
    p = pid.lower()
    return {"probe": [(c, ["%s_p_" % p]) for c in (DAON, DAOFF)],
            "quick": [(c, ["%s_q_" % p]) for c in quick_cfgs],
            "thorough": [(c, ["%s_q_" % p, "%s_t_" % p]) for c in thorough_cfgs]}


PROPS = {}

PROPS["C05"] = {
    "feature": "c05",
    "tiers": tiers("C05", quick_cfgs=(DAON, DAOFF)),
    "mem_gb": 4,
    "functions": ["Codec::{BITS,try_from_bits,unsafe_from_bits,try_from_ascii,unsafe_from_ascii,to_char,to_bits,items} for "
                  "dna::Dna, iupac::Iupac, amino::Amino, text::Dna, masked::Dna, masked::Iupac, degenerate::Dna "
                  "(hand-written and derive-expanded)", "ComplementMut/Complement on symbols", "From<Dna> for Iupac",
                  "IUPAC_COMPLEMENT_TABLE", "From<Iupac>/From<Amino> for u8"],
    "bounds": {"all": "finite domain decided completely: every law for all 256 values of the input byte (pairs of bytes for "
                      "injectivity); items() unwound to symbol count + 2; both build configurations (debug assertions on / off)"},
    "outside": "nothing inside the seven built-in codecs; derived user codecs are C17",
    "explanation": "solver-exhaustive over the finite byte domain, per monomorphic codec instance",
}

PROPS["C09"] = {
    "seed_pool": (r"c09_t_(?:rev|comp|revcomp)_", 8),
    "feature": "c09",
    "tiers": tiers("C09"),
    "mem_gb": 8,
    "functions": ["Kmer::{rotated_left,rotated_right,pushl,pushr,complement,rev_blocks_2}", "KmerStorage for usize/u64/u128 "
                  "(to_bitarray, from_bitslice, complement, rev_blocks_2, shiftr)", "Reverse/Complement/ReverseComplement(+Mut) for Kmer<_,K,usize>"],
    "bounds": {"all": "storage integer fully symbolic below 2^(K*BITS), per (codec, K, storage) instance listed in coverage.harnesses; "
                      "rotation counts concrete from {0,1,K-1,K,K+1,2K,65537,u32::MAX}; pushed symbol symbolic; push/rotate instances include six-bit symbols on u128 with K = 11 and 21 (a symbol slot spanning the two storage words)"},
    "outside": "K values not instantiated; symbolic rotation counts",
}

PROPS["C03"] = {
    "feature": "c03",
    "tiers": tiers("C03"),
    "mem_gb": 8,
    "functions": ["Index<Range|RangeInclusive|RangeTo|RangeToInclusive|RangeFrom|RangeFull|usize> for SeqSlice", "SeqSlice::{nth,get,len,is_empty}",
                  "Deref for Seq / SeqArray / Kmer<_,K,usize>", "From<&SeqSlice> for u8"],
    "bounds": {"all": "backing store 2-3 symbolic 64-bit words (so two word boundaries are crossed by 5/6/8-bit symbols); range bounds a,b and "
                      "probe index i fully symbolic within the store; re-slicing depth 3 with three independent symbolic ranges; out-of-bounds = "
                      "range ends / index 1..2 symbols past the end or reversed bounds"},
    "outside": "stores longer than 192 bits; indices whose product with BITS overflows usize (DESIGN 5-O1)",
}

PROPS["C10"] = {
    "seed_pool": (r"c10_t_kmer_", 8),
    "feature": "c10",
    "tiers": tiers("C10"),
    "mem_gb": 8,
    "functions": ["derive(PartialOrd, Ord, PartialEq, Eq) on Kmer (storage integer)", "Ord/PartialOrd on Seq", "Iterator::min over KmerIter",
                  "From<&Kmer> for usize"],
    "bounds": {"all": "two/three fully symbolic canonical k-mers per (codec, K) instance listed; minimiser: K=4 over a 6-symbol window at "
                      "symbolic offset 0..58 of two symbolic words; owned sequences: equal length n<=2 (quick) / 3 (thorough), symbolic content; 33 Dna symbols (11 Amino in thorough) over two storage words with a shared concrete low part and symbolic bits 56..66 on both sides of the word boundary"},
    "outside": "K not instantiated; sequences longer than 3 symbols (the comparison is a per-bit loop on heap bit-vectors)",
}

PROPS["C13"] = {
    "feature": "c13",
    "tiers": tiers("C13"),
    "mem_gb": 8,
    "functions": ["translation::Standard::to_amino / to_codon", "From<&SeqSlice> for u8", "Amino::unsafe_from_bits", "SeqSlice::windows/chunks (composition)"],
    "bounds": {"all": "finite domain decided completely: 3 symbolic words, codon start symbolic in 0..=93 (all 64 codons x every in-word offset "
                      "x both straddling positions in one query); windows(3)/chunks(3) over a 6/7-symbol window at symbolic offset"},
    "outside": "nothing for the codon map; windows/chunks composition on longer sequences follows from C11",
    "explanation": "solver-exhaustive over codons x offsets",
}

PROPS["C04"] = {
    "seed_pool": (r"c04_t_kmer_int_", 6),
    "feature": "c04",
    "tiers": tiers("C04"),
    "mem_gb": 10,
    "functions": ["TryFrom<&SeqSlice> for usize", "From<&SeqSlice> for u8", "From<Seq> for usize", "From<usize|u64> for Kmer", "From<&Kmer> for usize",
                  "KmerStorage::{from_bitslice,to_bitarray} for usize/u64/u128", "TryFrom<&SeqSlice> for Kmer", "Seq::{from_raw,into_raw}", "ToOwned for SeqSlice"],
    "bounds": {"all": "windows of 2-3 symbolic words at symbolic symbol offset and symbolic length (up to two symbols past what fits a word); "
                      "k-mer integers fully symbolic below 2^(K*BITS) per listed (codec,K,storage); raw images: owned sequences of 1..64 Dna symbols "
                      "built word-aligned, owned copies of 1..4-symbol windows at symbolic offset 0..60 (Dna) / 0..19 (Amino); from_raw on 1-2 symbolic words "
                      "with symbolic count 0..words*64/BITS+2"},
    "outside": "raw images of sequences produced by rev/comp/bitwise ops/remove are covered through their own checks' position-wise results plus the "
               "alignment claim here for copies; images longer than two words",
}

PROPS["C02"] = {
    "feature": "c02",
    "tiers": tiers("C02"),
    "mem_gb": 12,
    "functions": ["PartialEq impls between Seq/&Seq/SeqSlice/&SeqSlice/SeqArray/Kmer/&str (seq.rs, seq/slice.rs, kmer.rs)", "Hash for SeqSlice / Seq / Kmer",
                  "Borrow<SeqSlice> for Seq, AsRef, Deref"],
    "bounds": {"all": "two windows of 2-3 symbolic words at independent symbolic offsets, symbolic lengths up to 8 Dna / 3 Amino / 3 masked-Iupac symbols "
                      "(33 Dna in thorough); hasher input recorded byte by byte (<= 96 bytes) for windows of 1-3 symbols and k-mers K*BITS below/at the word; "
                      "owned sequences at concrete boundary shapes; sequence == text for Dna, Amino and the case-carrying masked::Dna (masked::Iupac, Iupac in thorough): symbolic window, symbolic text of up to 2-3 ASCII bytes"},
    "outside": "HashMap::get itself is not executed (RandomState/SipHash, see C15); longer sequences",
}

PROPS["C08"] = {
    "feature": "c08",
    "tiers": tiers("C08"),
    "mem_gb": 10,
    "functions": ["SeqSlice::kmers", "KmerIter::next", "Kmer::unsafe_from", "TryFrom<&SeqSlice>/TryFrom<Seq> for Kmer", "From<Kmer> for Seq", "kmer! (concrete literals)",
                  "SeqSlice::windows (comparison)"],
    "bounds": {"all": "window of n symbols (n in {K-1,K,K+1,K+2} per instance) at symbolic offset in 2-3 (6 for K=64) symbolic words; try_from with symbolic "
                      "length K-? .. K+2 at symbolic offset; (codec,K,storage) instances as listed in coverage.harnesses; from_str with one symbolic byte (K=2), wrong-length texts for K in {1,3} and concrete texts one character too long/short for k-mers that fill their storage exactly (text K=8 usize/u64, text K=16 u128, Amino K=21 u128; Dna K=32, Iupac K=32 u128, Dna K=64 u128 in thorough)"},
    "outside": "K not instantiated; FromStr/Display of k-mers go through text formatting (see C01 for the parser); sequences longer than K+2",
}

PROPS["C11"] = {
    "feature": "c11",
    "tiers": tiers("C11"),
    "mem_gb": 10,
    "functions": ["SeqIter::next", "RevIter::next", "SeqChunks::next", "SeqSlice::{iter,rev_iter,windows,chunks,chain}", "IntoIterator for &Seq / &SeqSlice",
                  "FromIterator<&SeqSlice> for Vec<Seq> (two windows)"],
    "bounds": {"all": "window at symbolic offset with symbolic length n <= 6 (2-bit) / 4 (5,6-bit); windows/chunks with symbolic width 1..n+2; every iterator "
                      "is driven n+1 (max+1) times so termination within the bound is part of the claim; partly consumed iterators (symbolic number k <= n <= 4 of next() calls) drained through fold / count / last, forward and reverse"},
    "outside": "n > 6; collecting more than a few windows into a Vec (Vec growth)",
}

PROPS["C01"] = {
    "feature": "c01",
    "tiers": {"quick": [(DAON, ["c01_q_"]), (DAOFF, ["c01_q_parse1_dna", "c01_q_parse1_amino", "c01_q_parse1_degen", "c01_q_parse2_dna_G", "c01_q_push_dna_l32"])],
              "thorough": [(DAON, ["c01_q_", "c01_t_"]), (DAOFF, ["c01_q_", "c01_t_parse"])],
              "probe": [(DAON, ["c01_p_"])]},
    "mem_gb": 16,
    "functions": ["TryFrom<Vec<u8>|&[u8]|&str|String|&String> for Seq", "FromStr for Seq", "FromIterator<A> for Seq", "Seq::{with_capacity,extend,push}",
                  "String::from(&SeqSlice)", "Codec::try_from_ascii/to_char per codec"],
    "bounds": {"all": "N=0 and N=1: the byte is fully symbolic (all 256 values) for all seven codecs, debug assertions on and off; N=2: first byte from a concrete "
                      "representative set (valid / invalid / non-ASCII / gap), second byte fully symbolic; N=3 (thorough): two concrete + one symbolic byte; "
                      "builder step: push of a symbolic symbol onto an owned sequence of L symbols with symbolic content for L at the codec's word boundary "
                      "(31/32 Dna, 15/16 Iupac, 12 masked-Iupac, 9/10 Amino, 7/8 text, 63/64 degenerate); display of 2-3 symbols at word-straddling offsets; "
                      "entry points &str/FromStr/&[u8]/String/&String/FromIterator at N=1 (2 for FromIterator)"},
    "outside": "inputs longer than the stated byte counts; reallocating growth of the bit vector",
}

import c14stage
PROPS["C14"] = {
    "engine": "smt-z3-cvc5",
    "level_note": "trusted: z3 4.8.12 and cvc5 1.0 (must agree), the row extractor and the encoder (validated on every run by exhaustive comparison with the real "
                  "functions), the NCBI table 1 strings and IUPAC sets typed into bin/c14stage.py, the native build of /repo",
    "feature": "c14",
    "tiers": {"quick": [], "thorough": [], "probe": []},
    "stages": [c14stage.stage],
    "mem_gb": 10,
    "functions": ["translation::standard::initialise_iupac_to_amino (29-row table, re-extracted from source on every run)",
                  "Standard::try_to_amino (first-match search loop; length check)", "Standard::try_to_codon (inverse map; evaluated natively on its whole 21-value domain)",
                  "SeqSlice<Iupac>::contains (subset test; real code under C12's harnesses)"],
    "bounds": {"all": "forward: SMT over a symbolic 12-bit codon (three 4-bit symbols), all 15^3 gap-free codons for soundness/completeness in one query each, "
                      "z3 4.8.12 diffed against cvc5 1.0; the encoding is tied to the real function by exhaustive native replay of all 16^3 codons and of every "
                      "codon of length 0,1,2,4 (quick) / 0,1,2,4,5 (thorough) at three slice offsets. reverse: per amino acid the solver decides whether an IUPAC "
                      "codon exists whose member set is exactly that amino acid's DNA codons (21 queries, both solvers); the real try_to_codon is evaluated "
                      "natively on all 21 amino symbols (its complete domain) and must return such a codon (which must translate back) exactly when one exists"},
    "outside": "nothing within the finite domains; the std HashMap behind try_to_codon is executed natively, not symbolically",
    "level_text": "the solver decides soundness/completeness of the extracted first-match table against NCBI table 1 for all gap-free IUPAC codons and, for the "
                  "reverse direction, the existence of an exact IUPAC codon per amino acid; the extraction/encoding is validated against the real functions on "
                  "every input of their finite domains (exhaustive native replay)",
    "technique": "SMT (z3, cross-checked with cvc5) over the pattern table extracted from source + exhaustive native replay tying the encoding to the real functions",
    "explanation": "solver over extracted table + complete native enumeration of the finite domains",
    "assumptions": ["try_to_codon's HashMap is executed natively over its complete 21-value input domain (not symbolically); its result does not depend on "
                    "hash seeds because the map is filled from the ordered row array"],
}

PROPS["C07"] = {
    "feature": "c07",
    "tiers": tiers("C07"),
    "mem_gb": 16,
    "overrides": [(r"_t_to_", {"mem_gb": 30})],
    "functions": ["ReverseMut/ComplementMut for Seq", "ReverseComplementMut::revcomp (default)", "Reverse/Complement/ReverseComplement::to_* for Seq and SeqSlice",
                  "ToOwned for SeqSlice", "ComplementMut on symbols"],
    "bounds": {"all": "owned sequences of concrete length L (0,1,3,4; 11/13/33 in thorough = word-straddling) with fully symbolic content; copying forms on "
                      "windows of 2-3 symbols at word-straddling concrete offsets; probe position symbolic"},
    "outside": "other lengths/offsets; in-place forms on &mut SeqSlice are unreachable through the public API",
}

PROPS["C20"] = {
    "feature": "c20",
    "tiers": tiers("C20"),
    "mem_gb": 16,
    "functions": ["MaskableMut/Maskable/ComplementMut for masked::Iupac and masked::Dna", "MaskableMut for Seq (per-chunk load/mask/store)", "Maskable::to_mask/to_unmask",
                  "ReverseMut/ComplementMut for Seq (composition)"],
    "bounds": {"all": "symbols: all 32 (5-bit) / 16 (4-bit) patterns decided by the solver; sequences: owned Seq<masked::Iupac> of 2, 3 and 13 symbols "
                      "(13 = first symbol that straddles a 64-bit word) with symbolic content, operations mask, unmask, mask;rev, rev;mask, mask;comp, comp;mask "
                      "checked position-wise with a symbolic probe position; Seq<masked::Dna> of 2 symbols (mask and unmask; 16 symbols filling the word for mask in thorough)"},
    "outside": "other lengths; windows at other offsets",
}

PROPS["C12"] = {
    "feature": "c12",
        "mem_gb": 20,
    "tiers": {"quick": [(DAON, ["c12_q_"])], "thorough": [(DAON, ["c12_q_", "c12_t_"]), (DAOFF, ["c12_q_"])], "probe": [(DAON, ["c12_p_"])]},
    "overrides": [(r"_t_", {"mem_gb": 40, "timeout": {"quick": 1500, "thorough": 5400}})],
    "functions": ["BitAnd/BitOr for &SeqSlice<Iupac>", "Seq::bit_and/bit_or", "contains on Seq<Iupac> and SeqSlice<Iupac>", "Iupac one-hot encoding, complement table"],
    "bounds": {"quick": "symbols: all 256 pairs decided by the solver (union, intersection, gap for the empty set, complement distributes); sequences: borrowed "
                        "operands of ONE symbol at independent offsets (0/4 and 15/7, 15 = last symbol of a word), owned operands (bit_or/bit_and) of 2 symbols and of 16 symbols (each operand one fully symbolic storage word, filling it exactly), "
                        "contains for 1-symbol operands (borrowed and owned pattern) and a length mismatch; symbolic content, symbolic probe position",
               "thorough": "adds one borrowed `&` on 2-symbol operands at a word-straddling offset (30 GB, ~25 min), empty operands and the other "
                           "length-mismatch direction; 3-4 symbol borrowed operands and multi-symbol contains are written (c12_x_*) but in no tier: "
                           "20-40 GB and up to an hour each (per-bit remainder loop of bitvec's op-assign on heap bit-vectors)"},
    "outside": "other offsets and longer operands; SeqArray::contains (same body as the slice form)",
}

PROPS["C06"] = {
    "feature": "c06",
    "tiers": tiers("C06"),
    "mem_gb": 20,
    "functions": ["Seq::{push,extend,append,prepend,insert,remove,truncate,clear,bit_range}", "Clone for Seq", "ToOwned for SeqSlice"],
    "bounds": {"all": "single edit step (inductive) from an owned state with fully symbolic content: concrete shapes - state length 0..6 (31/34 in thorough) "
                      "copied from a window at symbol offset 3 (or word-straddling offsets for 5/6-bit codecs), argument windows of 0-3 symbols at independent "
                      "offsets incl. word-straddling ones; every RangeBounds form for remove; positions front/middle/end for insert; result compared with the "
                      "list model at a symbolic probe position; two 2-step compositions as cross-check; one remove whose region is exactly one storage word long and starts off a word boundary (5..37 of 40 Dna symbols; 3..19 of 20 Iupac symbols in thorough)"},
    "outside": "long random histories (covered only through the single-step induction: every step re-establishes 'length multiple of BITS, content = list'); "
               "growth beyond capacity relies on bitvec/alloc reallocation preserving content",
    "level_text": "bounded model checking of one inductive edit step per operation and shape; histories of any length follow if each step preserves the "
                  "representation invariant, which the harnesses re-check through len() and position-wise reads",
}

PROPS["C19"] = {
    "feature": "c19",
    "tiers": tiers("C19"),
    "mem_gb": 16,
    "functions": ["From<&SeqSlice<A>>/From<&SeqArray>/From<SeqArray> for Seq<B>", "From<Dna> for Iupac", "From<dna::Dna> for text::Dna", "TryFrom<text::Dna> for dna::Dna", "Seq::trim_u8"],
    "bounds": {"all": "symbol maps: exhaustive by solver (4 bases; all 256 text bytes); conversions: windows of 2-3 Dna symbols at concrete offsets incl. the "
                      "word-straddling one, symbolic content; trimming: CONCRETE representative byte strings of length 0..7 (padding, lower-case flanks, interior bad bytes, "
                      "all-bad, empty, and bytes that are not UTF-8 at the start, at the end, in the interior and alone) executed by the engine and "
                      "compared with the span oracle; a symbolic byte makes the span symbolic and the collecting parser does not finish (40 GB)"},
    "outside": "trimming of arbitrary byte strings (only concrete representatives are executed); conversions of longer sequences",
    "assumptions": ["the trimming clause of the property is exercised on concrete representative inputs only; it is not claimed for all byte strings"],
}

PROPS["C18"] = {
    "timeout": {"quick": 1500, "thorough": 3600, "probe": 1500},
    "feature": "c18",
    "tiers": tiers("C18"),
    "mem_gb": 20,
    "functions": ["derive(Serialize, Deserialize) on Kmer (storage integer) and Seq (bitvec serde impl: order, head, bits, data)", "bincode 1.3 serialize/deserialize"],
    "bounds": {"all": "bincode only, k-mers only: storage integer fully symbolic for the listed (codec,K,storage) incl. K*BITS equal to the storage width"},
    "outside": "JSON (serde_json text formatting/parsing: not applicable to this technique); owned sequences (bitvec's serde impl for BitVec - type-name strings, "
               "nested structs, element sequence - did not finish for even the empty sequence: 15 min / 11 GB)",
    "assumptions": ["the JSON half and the Seq half of the property are NOT covered; only the k-mer/bincode quarter is decided"],
}

import c17stage
PROPS["C17"] = {
    "feature": "c17",
    "tiers": tiers("C17", quick_cfgs=(DAON, DAOFF)),
    "stages": [c17stage.stage],
    "mem_gb": 6,
    "functions": ["bio_seq_derive::codec_derive (expansion by the real proc macro inside rustc)", "parse_variants / parse_width (through their observable output)",
                  "the generated Codec impls of every declaration in the family"],
    "bounds": {"all": "program dimension: fixed family of 18 declarations (incl. one whose #[alt] pattern is wider than every discriminant: the width comes from the discriminants alone) (widths 1,2,3,4,6,7,8 with and without #[bits]; decimal/hex/binary/u8-suffixed/byte "
                      "literal discriminants; 2,3,4,5,8,16,40 variants; maximal discriminants 1,3,4,7,8,127,128,254,255; alternatives and display characters) "
                      "+ VERIF_SEED-random declarations (6 quick / 24 thorough) + in thorough every maximal discriminant 1..=255 for the default-width rule; "
                      "8 malformed declarations. data dimension: for the fixed family every codec law is decided by the solver for all 256 bytes in both build "
                      "configurations; random declarations are law-tested natively over all 256 bytes"},
    "outside": "declarations outside the generated family (the quantifier ranges over programs; macro expansion runs inside rustc and cannot be symbolic)",
    "level_text": "per generated declaration the solver decides the codec laws for all 256 input bytes (data dimension complete); the program dimension is a "
                  "generated family compiled with the real derive, including compile-outcome checks in dev and release profiles",
    "technique": "Kani/CBMC over derive-expanded code of a generated declaration family + compile-outcome checks of well-formed/malformed declarations",
}

import c16stage
PROPS["C16"] = {
    "feature": "c16",
    "tiers": tiers("C16"),
    "stages": [c16stage.stage],
    "mem_gb": 8,
    "functions": ["dna!/iupac! proc macros (real expansion inside rustc)", "SeqArray::deref / as_ref", "__bio_seq_count_words!", "kmer! (native family)",
                  "bio-seq-derive/src/seqarray.rs per-character tables (through the expanded literals)"],
    "bounds": {"all": "program dimension: fixed literal family (DNA lengths 0,1,2,31,32,33,63,64,65,127,128,129,200; IUPAC lengths 0,1,15,16,17,31,32,33,64,65 and "
                      "every IUPAC symbol incl. both gap spellings) + VERIF_SEED-random literals; each literal is a separate macro expansion. For the fixed family the "
                      "solver decides every position (symbolic index) against the generator's expected codes and equality with an equal-content window at another bit "
                      "offset; SeqArray::deref is decided for symbolic word contents at N in {0,1,31,32,33,64,65} (Dna) / {15,16,17} (Iupac); the word-count helper for "
                      "all bit counts up to 2^24. Native program family: every literal equals its runtime parse (==, len, display, hash) in dev and release; 22 invalid "
                      "literals must fail to compile"},
    "outside": "literals outside the generated family (quantifier over programs; expansion runs inside rustc)",
    "level_text": "data dimension decided by the solver per generated literal; program dimension covered by a generated family incl. compile-fail programs",
    "technique": "Kani/CBMC over the expanded literals of a generated program family + compile-outcome checks",
}
