"""C16 compile-outcome stage (program dimension): generated programs with real
dna!/iupac!/kmer! invocations, compiled against /repo.

* valid literals (fixed boundary lengths + VERIF_SEED-random): the literal must
  equal the runtime parse of the same text (==, length, display, hash) - native
  execution of the generated program in dev and release profiles
* invalid literals (one offending character at first/middle/last position,
  lower case, N/U/X/gap in dna!, digits, whitespace, multi-byte UTF-8): each is
  its own crate and must be rejected by the compiler."""
import json, os, re, subprocess, time
import vlib, gen_c16
from c17stage import _crate, _cargo


def _replay_file(name, payload):
    rp = os.path.join(vlib.VERIF, "evidence", "replays", "C16")
    os.makedirs(rp, exist_ok=True)
    path = os.path.join(rp, name + ".json")
    payload = dict(payload)
    payload["kind"] = "c16"
    payload["how"] = "put `source` into a crate that depends on /repo/bio-seq and run `cargo %s`" % payload.get("cargo", "test")
    json.dump(payload, open(path, "w"), indent=1)
    return path


def _valid_source(dna, iu):
    L = ["#![allow(dead_code)]", "use bio_seq::prelude::*;", "use std::hash::{Hash, Hasher, DefaultHasher};",
         "fn h<T: Hash + ?Sized>(t: &T) -> u64 { let mut s = DefaultHasher::new(); t.hash(&mut s); s.finish() }", ""]
    index = {}
    for k, lit in enumerate(dna):
        a = len(L) + 1
        L.append("#[test] fn dna_%d() {" % k)
        L.append('    let lit: &\'static SeqSlice<Dna> = dna!("%s");' % lit)
        L.append('    let run: Seq<Dna> = Seq::try_from("%s").unwrap();' % lit)
        L.append("    assert_eq!(lit.len(), %d); assert_eq!(lit, &run); assert_eq!(&run, lit);" % len(lit))
        L.append('    assert_eq!(lit.to_string(), "%s"); assert_eq!(h(lit), h(&run));' % lit)
        L.append("    for i in 0..lit.len() { assert_eq!(lit.nth(i), run.nth(i)); }")
        if 0 < len(lit) <= 32:
            L.append('    let k = kmer!("%s"); assert_eq!(k, lit); assert_eq!(k.to_string(), "%s"); assert_eq!(h(&k), h(lit));' % (lit, lit))
        if 0 < len(lit) <= 64:
            L.append('    let k128 = kmer!("%s", u128); assert_eq!(k128, lit); assert_eq!(k128.to_string(), "%s"); assert_eq!(h(&k128), h(lit));' % (lit, lit))
        L.append("}")
        index["dna_%d" % k] = (a, len(L), lit)
    for k, lit in enumerate(iu):
        a = len(L) + 1
        shown = lit.replace("X", "-")
        L.append("#[test] fn iupac_%d() {" % k)
        L.append('    let lit: &\'static SeqSlice<Iupac> = iupac!("%s");' % lit)
        L.append('    let run: Seq<Iupac> = Seq::try_from("%s").unwrap();' % shown)
        L.append("    assert_eq!(lit.len(), %d); assert_eq!(lit, &run);" % len(lit))
        L.append('    assert_eq!(lit.to_string(), "%s"); assert_eq!(h(lit), h(&run));' % shown)
        L.append("}")
        index["iupac_%d" % k] = (a, len(L), lit)
    return "\n".join(L) + "\n", index


def stage(tier, seed, scratch):
    t0 = time.time()
    R = {"name": "c16-programs", "status": "held", "lines": [], "violations": []}
    fd, fi = gen_c16.fixed_literals()
    sd, si = gen_c16.literals(seed, 8 if tier == "quick" else 40)
    dna, iu = fd + sd, fi + si
    src, index = _valid_source(dna, iu)
    d = os.path.join(scratch, "c16-valid")
    _crate(d, "c16valid", src)
    target = os.path.join(vlib.CACHE, "c17-target")
    programs = 0
    for pname, flag in (("dev", []), ("release", ["--release"])):
        rc, out = _cargo(["test", "--offline", "--lib"] + flag, d, target)
        programs += len(index)
        if rc != 0:
            failed = re.findall(r"^test (\w+) \.\.\. FAILED", out, re.M)
            blamed = set()
            for m in re.finditer(r"src/lib\.rs:(\d+)", out):
                ln = int(m.group(1))
                for name, (a, b, lit) in index.items():
                    if a <= ln <= b:
                        blamed.add(name)
            if not failed and not blamed:
                R.update(status="inconclusive", detail="valid-literal program failed (%s) without attributable cause:\n%s" % (pname, out[-2000:]))
                return R
            for name in sorted(set(failed) | blamed):
                a, b, lit = index[name]
                path = _replay_file("valid-%s-%s" % (name, pname), {"literal": lit, "profile": pname, "source": "\n".join(src.splitlines()[:5] + src.splitlines()[a - 1:b]),
                                                                    "output": out[-1500:], "cargo": "test" + (" --release" if flag else "")})
                R["violations"].append({"harness": "c16_literal_%s" % name, "tag": "C16.literal_differs_from_runtime_parse.%s" % pname, "replay": path})
    rejected = 0
    for name, expr in gen_c16.INVALID:
        dd = os.path.join(scratch, "c16-bad-%s" % name)
        body = "#![allow(dead_code)]\nuse bio_seq::prelude::*;\npub fn f() -> usize { %s.len() }\n" % expr
        _crate(dd, "c16bad", body)
        rc, out = _cargo(["check", "--offline"], dd, target)
        programs += 1
        if rc == 0:
            path = _replay_file("invalid-%s" % name, {"literal": expr, "source": body, "cargo": "check"})
            R["violations"].append({"harness": "c16_invalid_%s" % name, "tag": "C16.invalid_literal_compiled", "replay": path})
        else:
            rejected += 1
            if "error" not in out:
                R.update(status="inconclusive", detail="cargo failed without a compiler error for %s: %s" % (name, out[-800:]))
                return R
    if R["violations"]:
        R["status"] = "violation"
    R["programs"] = programs
    R["evaluations"] = programs
    R["distinct_nontrivial"] = len(index) + len(gen_c16.INVALID)
    R["samples"] = [{"literal": dna[3][:40], "len": len(dna[3])}, {"literal": iu[-1][:40]}, {"invalid": gen_c16.INVALID[10][1]}]
    R["lines"].append("[C16] %d valid literals equal their runtime parse (dev+release), %d/%d invalid literals rejected by the compiler"
                      % (len(index), rejected, len(gen_c16.INVALID)))
    R["wall_s"] = round(time.time() - t0, 1)
    return R
