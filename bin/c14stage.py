"""C14 stage: ambiguous-codon translation decided by SMT over the table
extracted from /repo's current source, tied to the real function by an
exhaustive native replay (every codon of length 0..5 at three slice offsets).

The encoding is regenerated on every run from
/repo/bio-seq/src/translation/standard.rs (rows) and the documented IUPAC /
NCBI-1 tables; z3 decides, cvc5 is diffed against it."""
import json, os, re, subprocess, time
import vlib

IUPAC = {"A": 8, "C": 4, "G": 2, "T": 1, "R": 10, "Y": 5, "S": 6, "W": 9, "K": 3, "M": 12, "B": 7, "D": 11, "H": 13,
         "V": 14, "N": 15, "-": 0, "X": 0}
NIB2CH = {v: k for k, v in IUPAC.items() if k != "X"}
AAS = "FFLLSSSSYY**CC*WLLLLPPPPHHQQRRRRIIIMTTTTNNKKSSRRVVVVAAAADDEEGGGG"
B1 = "TTTTTTTTTTTTTTTTCCCCCCCCCCCCCCCCAAAAAAAAAAAAAAAAGGGGGGGGGGGGGGGG"
B2 = "TTTTCCCCAAAAGGGGTTTTCCCCAAAAGGGGTTTTCCCCAAAAGGGGTTTTCCCCAAAAGGGG"
B3 = "TCAGTCAGTCAGTCAGTCAGTCAGTCAGTCAGTCAGTCAGTCAGTCAGTCAGTCAGTCAGTCAG"
# Amino enum variant -> display letter (X is stop '*'; documented in codec/amino.rs)
VARIANT2CH = {c: c for c in "ACDEFGHIKLMNPQRSTVWY"}
VARIANT2CH["X"] = "*"


def extract_rows():
    src = open(os.path.join(vlib.REPO, "bio-seq/src/translation/standard.rs")).read()
    m = re.search(r"fn initialise_iupac_to_amino\(\)\s*->\s*\[\(Seq<Iupac>, Amino\);\s*(\d+)\]\s*\{\s*\[(.*?)\n\s*\]\s*\}", src, re.S)
    if not m:
        raise ValueError("cannot locate initialise_iupac_to_amino table")
    declared = int(m.group(1))
    rows = []
    for line in m.group(2).splitlines():
        line = line.strip()
        if not line or line.startswith("//"):
            continue
        r = re.fullmatch(r'\(iupac!\("([A-Z-]+)"\)\.into\(\),\s*Amino::([A-Z])\),?', line)
        if not r:
            raise ValueError("table row not understood by the extractor: %r" % line)
        pat, aa = r.group(1), r.group(2)
        if any(ch not in IUPAC for ch in pat) or aa not in VARIANT2CH:
            raise ValueError("row with unknown symbol: %r" % line)
        rows.append((pat, VARIANT2CH[aa]))
    if len(rows) != declared:
        raise ValueError("extracted %d rows, array declares %d" % (len(rows), declared))
    # the search loop itself: first row whose pattern contains the codon
    f = re.search(r"fn try_to_amino\(.*?\n    \}\n", src, re.S)
    body = f.group(0) if f else ""
    # The encoder models "first row whose pattern contains the codon, else ambiguous; other
    # lengths invalid". Whether the source still has that shape is NOT decided by pattern
    # matching on the text: the exhaustive native replay below compares the encoding with the
    # real function on every codon and every other length, and any difference is reported.
    shape_ok = "IUPAC_TO_AMINO" in body
    return rows, shape_ok


def bv4(v):
    return "#x%x" % v


def bv8(ch):
    return "#x%02x" % ord(ch)


def encode(rows):
    L = ["(set-logic ALL)", "(declare-const c0 (_ BitVec 4))", "(declare-const c1 (_ BitVec 4))", "(declare-const c2 (_ BitVec 4))"]
    # model of the code: first-match search, '?' = AmbiguousTranslation
    expr = bv8("?")
    for pat, aa in reversed(rows):
        if len(pat) != 3:
            # contains() is false on a length mismatch: the row can never match a 3-symbol codon
            continue
        conds = " ".join("(= (bvand %s c%d) c%d)" % (bv4(IUPAC[ch]), i, i) for i, ch in enumerate(pat))
        expr = "(ite (and %s) %s %s)" % (conds, bv8(aa), expr)
    L.append("(define-fun model () (_ BitVec 8) %s)" % expr)
    # specification: for each amino letter X, allX <=> every concrete DNA codon in the set codes for X
    onehot = {"A": 8, "C": 4, "G": 2, "T": 1}
    letters = sorted(set(AAS))
    for X in letters:
        excl = []
        for i in range(64):
            if AAS[i] != X:
                mem = " ".join("(not (= (bvand %s c%d) #x0))" % (bv4(onehot[b]), j) for j, b in enumerate((B1[i], B2[i], B3[i])))
                excl.append("(not (and %s))" % mem)
        L.append("(define-fun all_%d () Bool (and %s))" % (ord(X), " ".join(excl)))
    L.append("(define-fun gapfree () Bool (and (not (= c0 #x0)) (not (= c1 #x0)) (not (= c2 #x0))))")
    sound = "(or %s)" % " ".join("(and (= model %s) (not all_%d))" % (bv8(X), ord(X)) for X in letters)
    complete = "(or %s)" % " ".join("(and all_%d (not (= model %s)))" % (ord(X), bv8(X)) for X in letters)
    # the model only ever answers an amino letter or '?'
    wellformed = "(not (or (= model %s) %s))" % (bv8("?"), " ".join("(= model %s)" % bv8(X) for X in letters))
    return L, {"soundness": "(and gapfree %s)" % sound, "completeness": "(and gapfree %s)" % complete,
               "wellformed": wellformed}


def solve(solver_cmd, script, timeout=120):
    t0 = time.time()
    p = subprocess.run(solver_cmd, input=script, stdout=subprocess.PIPE, stderr=subprocess.STDOUT, text=True, timeout=timeout)
    return p.stdout, time.time() - t0


def run_queries(base, queries, solver_cmd):
    script = "\n".join(base) + "\n"
    for name, q in queries.items():
        script += "(push 1)\n(assert %s)\n(check-sat)\n(get-value (c0 c1 c2 model))\n(pop 1)\n" % q
    out, secs = solve(solver_cmd, script)
    res = {}
    toks = re.findall(r"^(sat|unsat|unknown)$|\(error[^\n]*|\(\(c0 [^\n]*\)\)", out, re.M)
    lines = [l for l in out.splitlines() if l.strip()]
    verdicts = [l for l in lines if l in ("sat", "unsat", "unknown")]
    errors = [l for l in lines if l.startswith("(error") and "model is not available" not in l and "cannot get value" not in l.lower()]
    models = re.findall(r"\(\(c0 #x(.)\)\s*\(c1 #x(.)\)\s*\(c2 #x(.)\)\s*\(model #x(..)\)\)", out.replace("\n", " "))
    mi = 0
    for (name, _), v in zip(queries.items(), verdicts):
        res[name] = {"verdict": v}
        if v == "sat" and mi < len(models):
            c = [int(x, 16) for x in models[mi][:3]]
            res[name]["codon"] = "".join(NIB2CH[x] for x in c)
            res[name]["model_answer"] = chr(int(models[mi][3], 16))
            mi += 1
    return res, errors, secs, len(verdicts)


def eval_model_all(base, solver_cmd):
    """evaluate the SMT model term on all 4096 concrete codons in one solver process"""
    script = "\n".join(base) + "\n"
    for v in range(4096):
        c = [(v >> (4 * i)) & 15 for i in range(3)]
        script += "(push 1)(assert (and (= c0 %s) (= c1 %s) (= c2 %s)))(check-sat)(get-value (model))(pop 1)\n" % tuple(bv4(x) for x in c)
    out, secs = solve(solver_cmd, script, timeout=600)
    vals = re.findall(r"\(\(model #x(..)\)\)", out)
    return [chr(int(x, 16)) for x in vals], secs, out.count("(error")


def codon_members(codon):
    """indices (into the NCBI strings) of the concrete DNA codons matched by an IUPAC codon"""
    onehot = {"A": 8, "C": 4, "G": 2, "T": 1}
    out = set()
    for d in range(64):
        if all(IUPAC[codon[j]] & onehot[b] for j, b in enumerate((B1[d], B2[d], B3[d]))):
            out.add(d)
    return out


def reverse_spec(solver_cmd):
    """per amino letter X: sat iff some IUPAC codon (c0,c1,c2) has exactly X's codons as members"""
    onehot = {"A": 8, "C": 4, "G": 2, "T": 1}
    L = ["(set-logic ALL)", "(declare-const c0 (_ BitVec 4))", "(declare-const c1 (_ BitVec 4))", "(declare-const c2 (_ BitVec 4))"]
    letters = sorted(set(AAS))
    script = "\n".join(L) + "\n"
    for X in letters:
        conj = []
        for d in range(64):
            mem = "(and %s)" % " ".join("(not (= (bvand %s c%d) #x0))" % (bv4(onehot[b]), j) for j, b in enumerate((B1[d], B2[d], B3[d])))
            conj.append(mem if AAS[d] == X else "(not %s)" % mem)
        script += "(push 1)\n(assert (and %s))\n(check-sat)\n(get-value (c0 c1 c2))\n(pop 1)\n" % " ".join(conj)
    out, secs = solve(solver_cmd, script)
    lines = [l.strip() for l in out.splitlines() if l.strip()]
    verdicts = [l for l in lines if l in ("sat", "unsat", "unknown")]
    if len(verdicts) != len(letters) or "unknown" in verdicts:
        return None
    models = re.findall(r"\(\(c0 #x(.)\)\s*\(c1 #x(.)\)\s*\(c2 #x(.)\)\)", out.replace("\n", " "))
    res = {}
    mi = 0
    for X, v in zip(letters, verdicts):
        w = None
        if v == "sat" and mi < len(models):
            w = "".join(NIB2CH[int(x, 16)] for x in models[mi])
            mi += 1
        res[X] = (v, w)
    return res


def stage(tier, seed, scratch):
    t0 = time.time()
    R = {"name": "c14-smt", "status": "held", "lines": [], "violations": []}
    try:
        rows, shape_ok = extract_rows()
    except Exception as e:
        R.update(status="inconclusive", detail="table extraction failed: %s" % e)
        return R
    R["rows_extracted"] = len(rows)
    if not shape_ok:
        R.update(status="inconclusive", detail="try_to_amino no longer has the first-match-loop shape the encoder models")
        return R
    base, queries = encode(rows)
    smt_path = os.path.join(vlib.VERIF, "evidence", "C14.smt2")
    os.makedirs(os.path.dirname(smt_path), exist_ok=True)
    open(smt_path, "w").write("\n".join(base) + "\n" + "\n".join("; query %s\n(push 1)(assert %s)(check-sat)(pop 1)" % kv for kv in queries.items()) + "\n")
    z3res, z3err, z3s, nz = run_queries(base, queries, ["z3", "-in"])
    cvres, cverr, cvs, nc = run_queries(base, queries, ["cvc5", "--lang", "smt2", "--incremental", "--produce-models"])
    R["queries"] = {k: {"z3": z3res.get(k, {}).get("verdict"), "cvc5": cvres.get(k, {}).get("verdict")} for k in queries}
    R["solver_s"] = {"z3": round(z3s, 2), "cvc5": round(cvs, 2)}
    if z3err or cverr or nz != len(queries) or nc != len(queries):
        R.update(status="inconclusive", detail="solver error lines: z3=%r cvc5=%r" % (z3err[:3], cverr[:3]))
        return R
    for k in queries:
        if z3res[k]["verdict"] != cvres[k]["verdict"]:
            R.update(status="inconclusive", detail="z3 and cvc5 disagree on %s" % k)
            return R
        if z3res[k]["verdict"] == "unknown":
            R.update(status="inconclusive", detail="solver answered unknown on %s" % k)
            return R
    # ---- tie the encoding to the real function: exhaustive native replay
    binary, out = vlib.build_replay(True, "c14dump", "c14")
    if not binary:
        R.update(status="inconclusive", detail="c14dump build failed: " + out[-1500:])
        return R
    maxlen = 5 if tier == "thorough" else 4
    p = subprocess.run([binary, str(maxlen)], stdout=subprocess.PIPE, stderr=subprocess.STDOUT, text=True, timeout=900)
    if p.returncode != 0:
        # a panic of the real function on some codon is itself a violation of the no-panic clause
        R["status"] = "violation"
        rp = os.path.join(vlib.VERIF, "evidence", "replays", "C14")
        os.makedirs(rp, exist_ok=True)
        path = os.path.join(rp, "c14dump-panic.json")
        json.dump({"kind": "c14", "what": "try_to_amino panicked or aborted during exhaustive native enumeration", "output": p.stdout[-2000:]}, open(path, "w"), indent=1)
        R["violations"].append({"harness": "c14_native_enumeration", "tag": "C14.no_panic", "replay": path})
        return R
    real = {}
    invalid_ok = True
    mism = []
    reverse_real = {}
    for line in p.stdout.splitlines():
        f = line.split()
        if f[0] == "MISMATCH":
            mism.append(line)
        elif f[0] == "R":
            reverse_real[f[1]] = f[2]
            continue
        elif f[0] == "3":
            real[int(f[1], 16)] = f[2]
        elif f[2] != "!":
            invalid_ok = False
            R["violations"].append({"harness": "c14_invalid_length", "tag": "C14.invalid_length_len%s" % f[0],
                                    "replay": _write_replay("len%s-%s" % (f[0], f[1]), {"len": int(f[0]), "nibbles": f[1], "real": f[2], "expected": "!"})})
    if mism:
        R["violations"].append({"harness": "c14_offset_dependence", "tag": "C14.offset_independent",
                                "replay": _write_replay("offset-mismatch", {"lines": mism[:5]})})
    vals, evs, nerr = eval_model_all(base, ["z3", "-in"])
    R["solver_s"]["z3_eval_4096"] = round(evs, 2)
    if nerr or len(vals) != 4096 or len(real) != 4096:
        R.update(status="inconclusive", detail="model evaluation incomplete (%d values, %d errors, %d native lines)" % (len(vals), nerr, len(real)))
        return R
    disagree = [(v, vals[v], real[v]) for v in range(4096) if vals[v] != real[v]]
    R["traces_validated_against_impl"] = 4096 + sum(16 ** l for l in range(0, maxlen + 1) if l != 3)
    R["encoding_disagreements"] = len(disagree)
    if disagree:
        # the encoding does not describe the code (table edit the extractor mis-reads, or the loop changed)
        v, a, b = disagree[0]
        R.update(status="inconclusive", detail="SMT model and real try_to_amino disagree on %d codons, e.g. %s: model %r real %r"
                 % (len(disagree), "".join(NIB2CH[(v >> (4 * i)) & 15] for i in range(3)), a, b))
        return R
    # ---- solver verdicts (now known to speak about the real function)
    for k in ("soundness", "completeness", "wellformed"):
        if z3res[k]["verdict"] == "sat":
            codon = z3res[k]["codon"]
            v = sum(IUPAC[ch] << (4 * i) for i, ch in enumerate(codon))
            path = _write_replay("%s-%s" % (k, codon.replace("-", "_")), {"codon": codon, "real": real[v], "model": z3res[k]["model_answer"], "query": k})
            R["violations"].append({"harness": "c14_%s" % k, "tag": "C14.%s.%s" % (k, codon), "replay": path})
    # ---- reverse translation: the solver decides, per amino acid X, whether an IUPAC codon exists whose
    # member set is exactly the set of DNA codons coding for X (the specification); the real
    # try_to_codon is evaluated natively on all 21 amino symbols (its whole domain)
    rev = reverse_spec(["z3", "-in"])
    rev2 = reverse_spec(["cvc5", "--lang", "smt2", "--incremental", "--produce-models"])
    R["reverse"] = {}
    if rev is None or rev2 is None or {k: v[0] for k, v in rev.items()} != {k: v[0] for k, v in rev2.items()}:
        R.update(status="inconclusive", detail="reverse-translation queries: solver error or z3/cvc5 disagreement")
        return R
    for X, (verdict, witness) in sorted(rev.items()):
        got = reverse_real.get(X)
        R["reverse"][X] = {"exact_codon_exists": verdict == "sat", "real": got}
        if got is None:
            R.update(status="inconclusive", detail="no native reverse-translation line for %r" % X)
            return R
        ok = True
        if verdict == "sat":
            # a codon must be returned, it must match all and only X's codons, and translate back to X
            if got == "?":
                ok = False
            else:
                members = codon_members(got)
                if members != {d for d in range(64) if AAS[d] == X}:
                    ok = False
                v = sum(IUPAC[ch] << (4 * i) for i, ch in enumerate(got))
                if real.get(v) != X:
                    ok = False
        else:
            if got != "?":
                ok = False
        if not ok:
            path = _write_replay("reverse-%s" % ("stop" if X == "*" else X), {"amino": X, "real": got, "exact_codon_exists": verdict == "sat", "witness": witness})
            R["violations"].append({"harness": "c14_reverse", "tag": "C14.reverse.%s" % X, "replay": path})
    if R["violations"]:
        R["status"] = "violation"
    R["lines"].append("[C14] table rows=%d; z3/cvc5: %s; encoding == real function on 4096 codons; %d native lines for other lengths"
                      % (len(rows), json.dumps(R["queries"]), R["traces_validated_against_impl"] - 4096))
    R["wall_s"] = round(time.time() - t0, 1)
    R["smt_file"] = smt_path
    R["evaluations"] = 2 * len(queries) + 4096 + 2 * 21
    R["distinct_nontrivial"] = len(queries) + sum(1 for v in real.values() if v not in "?!")
    R["samples"] = [{"query": k, "z3": z3res[k]["verdict"], "cvc5": cvres[k]["verdict"]} for k in queries] + \
                   [{"codon": "".join(NIB2CH[(v >> (4 * i)) & 15] for i in range(3)), "model": vals[v], "real": real[v]} for v in (0x8f2, 0x111, 0xa25, 0xf3c)]
    return R


def _write_replay(name, payload):
    rp = os.path.join(vlib.VERIF, "evidence", "replays", "C14")
    os.makedirs(rp, exist_ok=True)
    path = os.path.join(rp, name + ".json")
    payload = dict(payload)
    payload["kind"] = "c14"
    payload["how"] = "bin/check C14 --replay %s (re-runs the native enumeration and compares)" % path
    json.dump(payload, open(path, "w"), indent=1)
    return path


def replay(path):
    d = json.load(open(path))
    binary, out = vlib.build_replay(True, "c14dump", "c14")
    if not binary:
        print("build failed")
        return 2
    p = subprocess.run([binary, "4"], stdout=subprocess.PIPE, text=True)
    if "codon" in d:
        v = sum(IUPAC[ch] << (4 * i) for i, ch in enumerate(d["codon"]))
        for line in p.stdout.splitlines():
            f = line.split()
            if f[0] == "3" and int(f[1], 16) == v:
                print("real try_to_amino(%s) = %s (recorded %s)" % (d["codon"], f[2], d["real"]))
                print("REPRODUCED" if f[2] == d["real"] else "not reproduced")
                return 1 if f[2] == d["real"] else 0
    print(p.stdout[-500:])
    return 0
