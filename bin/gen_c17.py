#!/usr/bin/env python3
"""Generates the C17 declaration family.

  gen_c17.py --write            rewrite harness/src/c17.rs (fixed family; committed)
  (imported)  family(seed)      fixed family + seed-random declarations, used by the
                                compile-outcome stage of bin/check C17

A declaration is a dict: name, bits (None = default width), variants =
[(ident, literal_text, value, display_char|None, [(alt_literal_text, alt_value)])].
The same data renders the Rust source (compiled with the REAL derive from /repo)
and the oracle tables, so the harness never consults the derive for its
expectations."""
import math, os, random, sys

VERIF = os.path.dirname(os.path.dirname(os.path.abspath(__file__)))
UP = "ABCDEFGHIJKLMNOPQRSTUVWXYZ"


def mk(name, bits, variants):
    return {"name": name, "bits": bits, "variants": variants}


def lit(v, style):
    if style == "dec":
        return str(v)
    if style == "hex":
        return "0x%02X" % v
    if style == "bin":
        return "0b%s" % bin(v)[2:]
    if style == "u8":
        return "%du8" % v
    if style == "byte":
        assert 33 <= v < 127 and chr(v) not in "'\\"
        return "b'%s'" % chr(v)
    raise ValueError(style)


def default_width(maxd):
    return max(0, math.ceil(math.log2(maxd + 1)))


def fixed_family():
    F = []
    F.append(mk("W1", None, [("A", "0", 0, None, []), ("B", "1", 1, None, [])]))
    F.append(mk("W2", None, [("A", "0b00", 0, None, []), ("C", "0b01", 1, None, []), ("G", "0b10", 2, None, []), ("T", "0b11", 3, None, [])]))
    F.append(mk("W3hex", None, [(UP[i], lit(i, "hex"), i, None, []) for i in range(5)]))
    F.append(mk("Max7", None, [(UP[i], lit(v, "dec"), v, None, []) for i, v in enumerate([0, 3, 7])]))
    F.append(mk("Max8", None, [(UP[i], lit(v, "dec"), v, None, []) for i, v in enumerate([1, 8])]))
    F.append(mk("Max127", None, [("A", "127", 127, None, []), ("B", "0", 0, None, [])]))
    F.append(mk("Max128", None, [("A", "128", 128, None, []), ("B", "5", 5, None, [])]))
    F.append(mk("Max254", None, [("A", "2", 2, None, []), ("B", "0xFE", 254, None, [])]))
    F.append(mk("Max255", None, [("A", "0", 0, None, []), ("B", "255", 255, None, [])]))
    F.append(mk("Wide8", 8, [("A", "0", 0, None, []), ("C", "1", 1, None, []), ("G", "2", 2, None, []), ("T", "3", 3, None, [])]))
    F.append(mk("Exact3", 3, [(UP[i], lit(i, "bin"), i, None, []) for i in range(8)]))
    F.append(mk("Bytes", None, [(c, lit(ord(c), "byte"), ord(c), None, []) for c in "ACGT"]))
    F.append(mk("Alts", 4, [
        ("A", "0b0001", 1, None, [("0b1001", 9)]),
        ("C", "0b0010", 2, None, []),
        ("Stop", "0b0100", 4, "*", [("0b1100", 12), ("0b1101", 13)]),
        ("Gap", "0b0000", 0, "-", [("15", 15)]),
        ("lower", "0b0011", 3, None, []),
    ]))
    F.append(mk("TwoAlts", 4, [
        ("A", "0", 0, None, [("8", 8), ("0xC", 12)]),
        ("B", "1", 1, "b", [("9", 9), ("0b1101", 13), ("14", 14)]),
        ("C", "2", 2, None, []),
    ]))
    # an alternative pattern wider than the largest discriminant: the width still comes from the discriminants alone
    F.append(mk("AltWide", None, [("A", "0", 0, None, [("0b0111", 7)]), ("C", "1", 1, None, []), ("G", "2", 2, None, []), ("T", "3", 3, None, [])]))
    F.append(mk("Bits7", 7, [("X", "64", 64, "x", []), ("Y", "1", 1, None, [("65", 65)])]))
    F.append(mk("Sixteen", None, [(UP[i], lit(i, "dec"), i, None, []) for i in range(16)]))
    v40 = [(UP[i] + "v", lit(i, "u8" if i % 3 == 0 else "dec"), i, None, []) for i in range(26)]
    v40 += [("Z%d" % i, lit(26 + i, "hex"), 26 + i, "0123456789+/=?"[i], []) for i in range(14)]
    F.append(mk("Forty", None, v40))
    return F


def random_family(seed, n=6):
    rnd = random.Random(seed)
    F = []
    for k in range(n):
        nv = rnd.choice([2, 3, 5, 9, 17, 33])
        vals = rnd.sample(range(0, rnd.choice([4, 16, 64, 256])), min(nv, 4)) if nv <= 4 else rnd.sample(range(256), nv)
        vals = vals[:nv]
        used = set(vals)
        letters = rnd.sample(UP + UP.lower(), len(vals))
        variants = []
        for i, v in enumerate(vals):
            style = rnd.choice(["dec", "hex", "bin", "u8"] + (["byte"] if 33 <= v < 127 and chr(v) not in "'\\" else []))
            disp = None
            if rnd.random() < 0.25:
                disp = rnd.choice("*-.#@!0123456789")
            alts = []
            if rnd.random() < 0.3:
                for _ in range(rnd.choice([1, 2])):
                    a = rnd.randrange(256)
                    if a not in used:
                        used.add(a)
                        alts.append((lit(a, rnd.choice(["dec", "hex", "bin"])), a))
            variants.append((letters[i] + "r%d" % i, lit(v, style), v, disp, alts))
        # display chars must stay unique
        seen = set()
        ok = True
        for (ident, _, _, disp, _) in variants:
            ch = disp or ident[0]
            if ch in seen:
                ok = False
            seen.add(ch)
        if not ok:
            continue
        need = default_width(max(max(v[2] for v in variants), max([a[1] for v in variants for a in v[4]] + [0])))
        dw = default_width(max(v[2] for v in variants))
        bits = None
        if rnd.random() < 0.5 or need > dw:
            bits = rnd.randint(max(need, dw, 1), 8)
        F.append(mk("R%d_%d" % (seed, k), bits, variants))
    return F


def expected_bits(d):
    return d["bits"] if d["bits"] is not None else default_width(max(v[2] for v in d["variants"]))


def render_enum(d, derive_path="Codec"):
    out = []
    out.append("#[derive(Clone, Copy, Debug, PartialEq, Eq, Hash, %s)]" % derive_path)
    if d["bits"] is not None:
        out.append("#[bits(%d)]" % d["bits"])
    out.append("#[repr(u8)]")
    out.append("#[allow(non_camel_case_types)]")
    out.append("pub enum %s {" % d["name"])
    for ident, littext, _, disp, alts in d["variants"]:
        if disp is not None:
            out.append("    #[display('%s')]" % disp)
        if alts and d["name"] == "TwoAlts":
            # one attribute per alternative, display (if any) between them
            for a in alts:
                out.append("    #[alt(%s)]" % a[0])
        elif alts:
            out.append("    #[alt(%s)]" % ", ".join(a[0] for a in alts))
        out.append("    %s = %s," % (ident, littext))
    out.append("}")
    return "\n".join(out)


def render_oracle(d):
    rows = ", ".join("(%d, b'%s')" % (v[2], (v[3] or v[0][0]).replace("'", "\\'")) for v in d["variants"])
    alts = ", ".join("(%d, %d)" % (a[1], v[2]) for v in d["variants"] for a in v[4])
    return "pub const %s_AL: Alpha = alpha(%d, &[%s], &[%s], &[]);" % (d["name"].upper(), expected_bits(d), rows, alts)


def render_harnesses(d, tier="q"):
    n = d["name"]
    lo = n.lower()
    al = "%s_AL" % n.upper()
    nv = len(d["variants"])
    H = []
    H.append("    fn c17_%s_%s_bits [2] { c05::law_bits::<%s>(&%s); }" % (tier, lo, n, al))
    H.append("    fn c17_%s_%s_ascii [2] { c05::law_ascii::<%s>(&%s); }" % (tier, lo, n, al))
    H.append("    fn c17_%s_%s_ascii_unchecked [2] { c05::law_ascii_unchecked::<%s>(); }" % (tier, lo, n))
    H.append("    fn c17_%s_%s_injective [2] { c05::law_injective::<%s>(); }" % (tier, lo, n))
    H.append("    fn c17_%s_%s_items [%d] { c05::law_items::<%s>(&%s.order[..%d]); }" % (tier, lo, nv + 2, n, al, nv))
    return H


def render_module(F):
    out = ["//! C17 — a derived codec implements exactly what its enum declaration says.",
           "//! GENERATED by bin/gen_c17.py --write (fixed declaration family). The enums are",
           "//! compiled with the real derive from /repo; the oracle tables come from the",
           "//! generator's own data, never from the derive.",
           "use crate::c05;", "use crate::oracle::{alpha, sym, Alpha, NONE};", "use crate::pre::*;", "use crate::vx::*;",
           "use crate::{harnesses, reach};", "use bio_seq::prelude::*;", ""]
    for d in F:
        out.append(render_enum(d))
        out.append(render_oracle(d))
        out.append("")
    out.append("harnesses! {")
    for d in F:
        out += render_harnesses(d)
    # sequences over a derived codec obey the same round-trip laws as built-ins (parse N=1, positional read)
    out.append("""    fn c17_q_alts_seq_parse1 [6] {
        let a = any_u8();
        let r = Seq::<Alts>::try_from(vec![a]);
        crate::c17::check_parse1::<Alts>(&ALTS_AL, a, r);
    }
    fn c17_q_forty_seq_parse1 [8] {
        let a = any_u8();
        let r = Seq::<Forty>::try_from(vec![a]);
        crate::c17::check_parse1::<Forty>(&FORTY_AL, a, r);
    }
    fn c17_q_alts_slice_reads [4] {
        // stored alternative codes decode to their variant when read back from a sequence
        let w = any_words::<2>();
        let s = arr::<Alts, 32, 2>(w);
        let i = any_usize();
        assume(i < 32);
        let code = sym(&w, 0, 4, i);
        assume(ALTS_AL.from_bits[code as usize] != NONE);
        assert!(s.nth(i).to_bits() == ALTS_AL.from_bits[code as usize] as u8, "C17.seq.alt_code_reads_as_variant");
        reach!(code == 13, "alternative code");
    }""")
    out.append("}")
    out.append("""
#[inline(always)]
pub fn check_parse1<A: Codec>(al: &Alpha, a: u8, r: Result<Seq<A>, ParseBioError>) {
    let want = al.from_char[a as usize];
    reach!(r.is_ok(), "accepted");
    reach!(r.is_err(), "rejected");
    match r {
        Ok(s) => {
            assert!(want != NONE, "C17.seq.accepted_a_non_symbol_byte");
            assert!(s.len() == 1 && s.nth(0).to_bits() == want as u8, "C17.seq.parse_symbol");
            core::mem::forget(s);
        }
        Err(e) => {
            assert!(want == NONE, "C17.seq.refused_a_symbol_char");
            assert!(e == ParseBioError::UnrecognisedBase(a), "C17.seq.error_byte");
        }
    }
}
""")
    return "\n".join(out) + "\n"


MALFORMED = [
    ("bits_too_small", "#[derive(Clone, Copy, Debug, PartialEq, Eq, Hash, Codec)]\n#[bits(2)]\n#[repr(u8)]\npub enum E { A = 0, B = 4 }"),
    ("bits_too_small_255", "#[derive(Clone, Copy, Debug, PartialEq, Eq, Hash, Codec)]\n#[bits(7)]\n#[repr(u8)]\npub enum E { A = 0, B = 255 }"),
    ("missing_discriminant", "#[derive(Clone, Copy, Debug, PartialEq, Eq, Hash, Codec)]\n#[repr(u8)]\npub enum E { A = 0, B }"),
    ("float_discriminant", "#[derive(Clone, Copy, Debug, PartialEq, Eq, Hash, Codec)]\npub enum E { A = 0, B = 1.0 }"),
    ("string_discriminant", "#[derive(Clone, Copy, Debug, PartialEq, Eq, Hash, Codec)]\npub enum E { A = 0, B = \"x\" }"),
    ("on_struct", "#[derive(Clone, Copy, Debug, PartialEq, Eq, Hash, Codec)]\npub struct E { a: u8 }"),
    ("on_tuple_struct", "#[derive(Clone, Copy, Debug, PartialEq, Eq, Hash, Codec)]\npub struct E(u8);"),
    ("bits_not_integer", "#[derive(Clone, Copy, Debug, PartialEq, Eq, Hash, Codec)]\n#[bits(\"4\")]\n#[repr(u8)]\npub enum E { A = 0, B = 1 }"),
]


def crate_source(body):
    return "#![allow(dead_code, non_camel_case_types)]\nuse bio_seq::prelude::*;\n" + body + "\n"


def family(seed):
    return fixed_family() + random_family(seed)


if __name__ == "__main__":
    if "--write" in sys.argv:
        open(os.path.join(VERIF, "harness/src/c17.rs"), "w").write(render_module(fixed_family()))
        print("wrote harness/src/c17.rs with", len(fixed_family()), "declarations")
    else:
        for d in family(int(sys.argv[1]) if len(sys.argv) > 1 else 0):
            print(render_enum(d))
            print(render_oracle(d))
